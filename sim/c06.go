package sim

import (
	"bytes"
	"encoding/base64"
	"encoding/json"
	"fmt"
	"strings"
)

// checkMinted (C06, entropy seam): the random part of every freshly minted opaque value equals bytes drawn from the
// instrumented entropy source, carries at least max(32, configured) bytes, and never repeats.
func (r *Run) checkMinted(val, kind string) {
	if r.keyParts == nil {
		r.keyParts = map[string]string{}
	}
	var key []byte
	switch {
	case kind == "par":
		enc := strings.TrimPrefix(val, r.W.K.DocPARPrefix())
		b, err := b64tok.DecodeString(enc)
		if err != nil {
			r.violate("C06", "minted-value-malformed", kind, "request_uri random part is not base64url: %v", err)
			return
		}
		key = b
	case strings.Count(val, ".") == 2:
		// JWT access token: signature and claims are covered by checkJWTAccessToken; here: a fresh token never repeats an
		// earlier one, neither as a whole nor in its jti
		if prev, dup := r.keyParts["jwt:"+val]; dup {
			r.violate("C06", "minted-value-repeated", kind+":jwt", "a minted JWT %s is identical to an earlier %s", kind, prev)
		}
		r.keyParts["jwt:"+val] = kind
		if parts := strings.Split(val, "."); len(parts) == 3 {
			if pb, err := base64.RawURLEncoding.DecodeString(parts[1]); err == nil {
				var claims map[string]interface{}
				if json.Unmarshal(pb, &claims) == nil {
					if jti, _ := claims["jti"].(string); jti != "" {
						if prev, dup := r.keyParts["jti:"+jti]; dup {
							r.violate("C06", "minted-value-repeated", kind+":jti", "the jti of a minted JWT %s repeats that of an earlier %s", kind, prev)
						}
						r.keyParts["jti:"+jti] = kind
					}
				}
			}
		}
		return
	default:
		_, k, _, ok := splitOpaque(val)
		if !ok {
			r.violate("C06", "minted-value-malformed", kind, "minted %s is not of the form <random>.<signature>", kind)
			return
		}
		b, err := b64tok.DecodeString(k)
		if err != nil {
			r.violate("C06", "minted-value-malformed", kind, "random part of a minted %s is not base64url: %v", kind, err)
			return
		}
		key = b
	}
	r.stat("minted-checked")
	want := 32
	if r.W.K.Entropy > want && kind != "par" {
		want = r.W.K.Entropy
	}
	if len(key) < want {
		r.violate("C06", "minted-value-low-entropy", kind, "a minted %s carries %d random bytes, at least %d are configured/required", kind, len(key), want)
	}
	if prev, dup := r.keyParts[string(key)]; dup {
		r.violate("C06", "minted-value-repeated", kind, "the random part of a minted %s repeats that of %s", kind, prev)
	}
	r.keyParts[string(key)] = kind
	// pass-through: the bytes are exactly one chunk served by the entropy source (not derived, truncated-and-padded, or reused)
	if len(r.Ent.Log) < 4000 {
		found := false
		for i := len(r.Ent.Log) - 1; i >= 0 && i >= len(r.Ent.Log)-64; i-- {
			if bytes.Equal(r.Ent.Log[i], key) {
				found = true
				break
			}
		}
		if !found {
			r.violate("C06", "minted-value-not-from-entropy-source", kind, "the %d random bytes of a minted %s are not a chunk served by the entropy source", len(key), kind)
		}
	}
	if r.shortSecret && kind != "par" {
		r.violate("C06", "minted-under-short-secret", kind, "a %s was minted although the global secret is shorter than 32 bytes", kind)
	}
	if r.Ent.Fired["rand-err"]+r.Ent.Fired["rand-short"] > r.entFiredSeen && r.entropyFaultHitsToken(key) {
		r.violate("C06", "minted-despite-entropy-failure", kind, "a %s was minted from a failed / short entropy read", kind)
	}
}

// entropyFaultHitsToken: was this key built from a short read (its tail not served by the source)?
func (r *Run) entropyFaultHitsToken(key []byte) bool {
	for i := len(r.Ent.Log) - 1; i >= 0 && i >= len(r.Ent.Log)-64; i-- {
		if bytes.Equal(r.Ent.Log[i], key) {
			return false
		}
	}
	return true
}

func init() {
	reg(&Profile{Name: "c06", Prop: "C06", Gen: func(t *Tape) *Plan {
		k := swarmKnobs(t)
		k.Store = "plain"
		k.BearerKeys = bearerKeys()
		k.JWTAccess = t.Chance(50)
		k.Entropy = []int{0, 0, 16, 32, 48, 64}[t.Intn(6)]
		k.HMACHash = t.Pick([]string{"", "", "sha256", "sha512"})
		k.Secret = t.Pick([]string{"", LongSecretA, LongSecretB})
		if t.Chance(40) {
			k.RotatedSecrets = []string{LongSecretC}
			if t.Chance(40) {
				k.RotatedSecrets = append(k.RotatedSecrets, "another-rotated-secret-0123456789abcdef!")
			}
		}
		m := mix{authz: 12, hybrid: 3, implicit: 3, redeem: 12, redeemBad: 6, refresh: 10, refreshOld: 2, refreshForeign: 6, introspect: 30, revoke: 3, advance: 3, password: 4, cc: 3, device: 8, par: 5, rotate: 6, pkce: 10, mutate: 70}
		steps := genHistory(t, &k, m, t.Range(14, 50))
		// attacker presentations of mutated device codes / revocations, entropy faults, short secret
		for i := range steps {
			s := &steps[i]
			switch s.Op {
			case "device_token", "revoke":
				if t.Chance(25) {
					if s.P == nil {
						s.P = map[string]string{}
					}
					s.P["mutate"] = t.Pick([]string{"flipkey", "flipsig", "swapkey", "trunckey", "foreignsecret", "foreignkey-storedsig", "payload", "none", "hs256"})
				}
			case "authz", "redeem", "refresh", "password", "client_credentials", "device_authz", "par_push":
				if s.F == nil && t.Chance(8) {
					s.F = &FaultSpec{Kind: t.Pick([]string{"rand-err", "rand-short"}), At: t.Intn(4)}
				}
			}
		}
		if t.Chance(15) {
			at := t.Intn(len(steps))
			steps = append(steps[:at], append([]Step{{Op: "rotate_global", V: "short", P: map[string]string{"new": "too-short-secret"}}}, steps[at:]...)...)
		}
		if t.Chance(14) {
			// unusual secret configurations: current secret unset, unset entries in the rotated list, no usable secret at all
			at := t.Intn(len(steps))
			v := t.Pick([]string{"unset", "empty_rotated", "empty_rotated", "only_empty", "only_empty"})
			ins := Step{Op: "rotate_global", V: v, P: map[string]string{"pos": t.Pick([]string{"front", "back"}), "n": t.Pick([]string{"1", "2"})}}
			steps = append(steps[:at], append([]Step{ins}, steps[at:]...)...)
		}
		return &Plan{Profile: "c06", Prop: "C06", K: k, Steps: steps}
	}})
	regProp(&PropSpec{ID: "C06", Profiles: []string{"c06"}, Characteristic: []string{"mutated:", "rotate-global", "entropy-fault"}})
}

var _ = fmt.Sprintf
