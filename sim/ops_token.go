package sim

import (
	"crypto/sha256"
	"encoding/base64"
	"fmt"
	"net/url"
	"strings"
	"time"
)

func (r *Run) call(endpoint string, f func() *Resp) *Resp {
	r.W.Store.TxTrace = nil
	r.W.Store.OutsideTx = nil
	r.writeMark = len(r.W.Store.WriteLog)
	res := f()
	if n := len(r.W.Store.OutsideTx); n > 0 {
		r.probe("write-with-a-context-outside-the-open-transaction")
		r.logf("   %d write(s) inside the open transaction used a context that does not carry it: %v", n, r.W.Store.OutsideTx)
	}
	if len(r.Fault.specs) > 0 && r.Fault.specs[0].Kind == "trace-only" {
		r.logf("TRACE %s", strings.ReplaceAll(strings.Join(res.Trace, " "), ":ERR", ""))
	}
	if res.Crashed {
		r.stat("crashed-request")
		r.afterCrash()
	} else {
		r.checkTxTrace(endpoint)
	}
	r.monitorResp(endpoint, res)
	return res
}

func splitNonEmpty(s string) []string {
	var out []string
	for _, x := range strings.Split(s, " ") {
		if x != "" && !has(out, x) {
			out = append(out, x)
		}
	}
	return out
}

func (r *Run) verifier(n int) string {
	return fmt.Sprintf("verifier-%04d-abcdefghijklmnopqrstuvwxyz0123456789", n)
}

func s256(v string) string {
	h := sha256.Sum256([]byte(v))
	return base64.RawURLEncoding.EncodeToString(h[:])
}

func (r *Run) redirectFor(cs *ClientSpec, sel string) string {
	switch {
	case sel == "omit":
		return ""
	case sel == "" || sel == "reg:0":
		if len(cs.RedirectURIs) > 0 {
			return cs.RedirectURIs[0]
		}
		return ""
	case strings.HasPrefix(sel, "reg:"):
		var i int
		fmt.Sscanf(sel, "reg:%d", &i)
		if len(cs.RedirectURIs) > 0 {
			return cs.RedirectURIs[i%len(cs.RedirectURIs)]
		}
		return ""
	}
	return sel
}

// ---------------------------------------------------------------------------
// AUTHZ

func (r *Run) opAuthorize(st Step) {
	cs := r.clientSpec(st.C)
	q := url.Values{}
	q.Set("client_id", cs.ID)
	rtype := st.p("rt")
	if rtype == "" {
		rtype = "code"
	}
	q.Set("response_type", rtype)
	scope := st.p("scope")
	if scope != "" {
		q.Set("scope", scope)
	}
	if a := st.p("aud"); a != "" {
		q.Set("audience", a)
	}
	redirect := r.redirectFor(cs, st.p("redirect"))
	if redirect != "" {
		q.Set("redirect_uri", redirect)
	}
	state := st.p("state")
	if state == "" {
		state = fmt.Sprintf("state-%04d-abcdefgh", r.Idx)
	}
	if state != "omit" {
		q.Set("state", state)
	} else {
		state = ""
	}
	if n := st.p("nonce"); n != "" {
		q.Set("nonce", n)
	}
	if m := st.p("mode"); m != "" {
		q.Set("response_mode", m)
	}
	for _, k := range []string{"max_age", "prompt", "id_token_hint", "request", "request_uri", "acr_values"} {
		if v := st.p(k); v != "" {
			q.Set(k, v)
		}
	}
	var challenge, method, verifier string
	if pk := st.p("pkce"); pk != "" {
		r.verifierN++
		verifier = r.verifier(r.verifierN)
		if strings.HasSuffix(pk, ":malformed") {
			// the client derives its challenge from a verifier that is NOT well-formed (right length, a forbidden character later on)
			bad := []string{"/", "=", "+", " ", ":", "@", "!", "|"}
			verifier = verifier[:20] + bad[r.verifierN%len(bad)] + verifier[21:]
			pk = strings.TrimSuffix(pk, ":malformed")
			r.probe("pkce-challenge-from-malformed-verifier")
		}
		switch pk {
		case "S256":
			challenge, method = s256(verifier), "S256"
			q.Set("code_challenge_method", "S256")
			r.secret(verifier, "code_verifier(S256)")
		case "plain":
			challenge, method = verifier, "plain"
			q.Set("code_challenge_method", "plain")
		case "plain-implicit": // method omitted => plain
			challenge, method = verifier, "plain"
		case "bogus":
			challenge, method = verifier, "S512"
			q.Set("code_challenge_method", "S512")
		}
		q.Set("code_challenge", challenge)
	}
	sub := st.p("sub")
	if sub == "" {
		sub = "user-A"
	}
	con := &Consent{Subject: sub, Deny: st.p("deny") != ""}
	if g := st.p("grant"); g != "" {
		con.Scopes = splitNonEmpty(g)
	}
	if ga, ok := st.P["grant_aud"]; ok {
		con.PartialAud, con.Audiences = true, splitNonEmpty(ga)
	}
	fmt.Sscanf(st.p("auth_ago"), "%d", &con.AuthAgo)
	hintSubject := ""
	if h := st.p("hint"); h != "" {
		// id_token_hint: a previously issued ID token ("same" subject as this consent, or "other")
		for _, c := range r.L.OfKind("id") {
			if c.G != nil && ((h == "same") == (c.G.Subject == sub)) {
				q.Set("id_token_hint", c.Val)
				hintSubject = c.G.Subject
			}
		}
	}
	fmt.Sscanf(st.p("preset_id_exp"), "%d", &con.PresetIDExp)
	con.PresetIDAud = st.p("preset_id_aud") != ""
	fmt.Sscanf(st.p("preset_at_exp"), "%d", &con.PresetATExp)
	if st.p("no_auth_time") != "" {
		con.NoAuthTime = true
	}
	if st.p("empty_sub") != "" {
		con.Subject = ""
	}
	if st.p("extra_reserved") != "" {
		// a session whose extra claims try to override the reserved introspection members
		con.Extra = map[string]interface{}{"client_id": "evil-client", "scope": "admin everything", "sub": "evil-subject", "exp": 4102444800, "aud": []string{"https://evil.example"},
			"iat": 1, "username": "evil-user", "harmless": "kept"}
		r.probe("session-extras-with-reserved-names")
	}
	// OpenID Connect request objects (C13): parameters travel in a signed JWT, inline or fetched over the simulated network
	roState, roVerdict := "", Unspec
	if ro := st.p("ro"); ro != "" {
		base := map[string]string{"response_type": q.Get("response_type"), "scope": q.Get("scope"), "redirect_uri": q.Get("redirect_uri"), "nonce": q.Get("nonce")}
		var jwtStr string
		jwtStr, roState, roVerdict = r.requestObject(st, cs, base)
		r.probe("request-object:" + ro)
		loc := "https://unregistered.sim/request.jwt"
		if len(cs.RequestURIs) > 0 && ro != "via_uri_unregistered" {
			loc = cs.RequestURIs[0]
		}
		// near misses of a registered request_uri are not registered: "pre-registered" means the exact string
		switch ro {
		case "via_uri_case":
			if i := strings.LastIndex(loc, "/"); i > 8 {
				loc = loc[:i] + strings.ToUpper(loc[i:])
			}
		case "via_uri_hostcase":
			loc = strings.Replace(loc, "https://ro-", "https://RO-", 1)
		case "via_uri_query":
			loc += "?v=2"
		}
		switch ro {
		case "via_uri", "via_uri_unregistered", "via_uri_case", "via_uri_hostcase", "via_uri_query":
			r.W.Net.Docs[loc] = jwtStr
			q.Set("request_uri", loc)
			if ro != "via_uri" || len(cs.RequestURIs) == 0 || !has(cs.RequestURIs, loc) {
				roVerdict = MustNot
			}
		case "both":
			r.W.Net.Docs[loc] = jwtStr
			q.Set("request_uri", loc)
			q.Set("request", jwtStr)
			roVerdict = MustNot
		default:
			q.Set("request", jwtStr)
		}
		if nf := st.p("net"); nf != "" {
			r.W.Net.Fault[loc] = nf
		}
		if nf := st.p("net_jwks"); nf != "" && cs.JWKSURI != "" {
			if nf == "stale" {
				r.W.Net.Stale[cs.JWKSURI] = JWKSFor("rsa3") // the cache still holds an old key set; a forced refresh finds the current one
			} else {
				r.W.Net.Fault[cs.JWKSURI] = nf
			}
		}
	}
	res := r.call("authorize", func() *Resp { return r.A.Authorize(q, con) })
	delete(r.W.Net.Stale, cs.JWKSURI)
	if roState != "" && !res.Crashed {
		honoured := res.Params().Get("state") == roState
		if honoured && roVerdict == MustNot {
			r.violate("C13", "request-object-honoured", st.p("ro"), "parameters of a request object (%s) that is not signed with a key and algorithm registered for client %s (alg %q) / not pre-registered were honoured", st.p("ro"), cs.ID, cs.RequestObjAlg)
		}
		if honoured {
			r.probe("request-object-honoured:" + st.p("ro"))
			q.Set("state", roState)
		}
	}
	r.checkAuthorizeResponse(cs, q, res, "", false)
	g := r.afterAuthorize(st, cs, res, q, con, challenge, method, verifier)
	if g != nil {
		g.Params["auth_ago"] = fmt.Sprint(con.AuthAgo)
		g.Params["hint_subject"] = hintSubject
		if con.NoAuthTime {
			g.Params["no_auth_time"] = "1"
		}
		if id := res.Params().Get("id_token"); id != "" {
			r.checkIDTokenConditions(g, "authorization endpoint")
		}
	}
}

// checkIDTokenConditions (C14): a max_age, prompt=none/login or id_token_hint the session does not satisfy makes issuance fail.
// Only clear-cut relations are judged (auth_time at least 2 s away from the request time; auth_time is truncated to seconds).
func (r *Run) checkIDTokenConditions(g *Grant, where string) {
	var ago int64
	fmt.Sscanf(g.Params["auth_ago"], "%d", &ago)
	var maxAge int64
	fmt.Sscanf(g.Params["max_age"], "%d", &maxAge)
	prompt := splitNonEmpty(g.Params["prompt"]) // a space-delimited LIST of values (OpenID Connect Core 3.1.2.1)
	r.probe("idtoken-conditions-checked")
	if g.Params["no_auth_time"] != "" {
		return // without auth_time the library substitutes "now": not pinned down by the statement
	}
	if maxAge > 0 && ago >= maxAge+2 {
		r.violate("C14", "id-token-despite-unsatisfied-condition", "max_age", "an ID token was issued (%s) although the user authenticated %d s before the request and max_age=%d", where, ago, maxAge)
	}
	if has(prompt, "none") && ago <= -2 {
		r.violate("C14", "id-token-despite-unsatisfied-condition", "prompt=none", "an ID token was issued (%s) for prompt=none although the user authenticated %d s AFTER the request was made", where, -ago)
	}
	if has(prompt, "login") && ago >= 2 {
		if len(prompt) > 1 {
			r.probe("prompt-list-with-login")
		}
		r.violate("C14", "id-token-despite-unsatisfied-condition", "prompt=login", "an ID token was issued (%s) for prompt=login although the user was not re-authenticated (auth_time %d s before the request)", where, ago)
	}
	if hs := g.Params["hint_subject"]; hs != "" && hs != g.Subject {
		r.violate("C14", "id-token-despite-unsatisfied-condition", "id_token_hint", "an ID token was issued (%s) for subject %q although id_token_hint names subject %q", where, g.Subject, hs)
	}
}

type authzInfo struct {
	Res *Resp
	G   *Grant
}

func (r *Run) afterAuthorize(st Step, cs *ClientSpec, res *Resp, q url.Values, con *Consent, challenge, method, verifier string) *Grant {
	p := res.Params()
	code, at, id := p.Get("code"), p.Get("access_token"), p.Get("id_token")
	rtype := q.Get("response_type")
	r.lastAuthz = &authzInfo{Res: res}
	if res.Crashed {
		r.logf("authz %s rt=%q -> CRASHED", cs.ID, rtype)
		return nil
	}
	if r.Fault.mustRefuse() && (at != "" || id != "") {
		r.violate("C18", "tokens-despite-storage-failure", "authorize", "authz %s rt=%q: a storage call failed (%s) but the response carries tokens", cs.ID, rtype, r.Fault.desc())
	}
	if code == "" && at == "" && id == "" {
		r.logf("authz %s rt=%q scope=%q -> %d %s", cs.ID, rtype, q.Get("scope"), res.Status, res.ErrName)
		r.Shape = append(r.Shape, "authz✗")
		r.stat("authz:refused:" + res.ErrName)
		return nil
	}
	req := splitNonEmpty(q.Get("scope"))
	var granted []string
	for _, s := range req {
		if con.Scopes == nil || has(con.Scopes, s) {
			granted = append(granted, s)
		}
	}
	origin := "code"
	rts := splitNonEmpty(rtype)
	switch {
	case has(rts, "code") && len(rts) > 1:
		origin = "hybrid"
	case !has(rts, "code"):
		origin = "implicit"
	}
	now := r.now()
	grantedAud := splitNonEmpty(q.Get("audience"))
	if con.PartialAud {
		var ga []string
		for _, a := range grantedAud {
			if has(con.Audiences, a) {
				ga = append(ga, a)
			}
		}
		grantedAud = ga
	}
	g := r.L.NewGrant(&Grant{Client: cs.ID, Origin: origin, Subject: con.Subject, Scopes: granted, Audience: grantedAud,
		Nonce: q.Get("nonce"), State: q.Get("state"), Redirect: q.Get("redirect_uri"), Challenge: challenge, Method: method, OpenID: has(granted, "openid"),
		ReqAt: now, Params: map[string]string{"response_type": rtype, "verifier": verifier, "max_age": q.Get("max_age"), "prompt": q.Get("prompt")}})
	if has(cs.GrantTypes, "refresh_token") {
		g.Params["had_refresh_grant_at_authorization"] = "1"
	}
	g.ViaPAR = st.p("via_par") != ""
	if con.PresetIDExp > 0 {
		g.PresetIDExp = now.Add(time.Duration(con.PresetIDExp) * time.Second)
	}
	var cc, ca, ci *Cred
	if code != "" {
		cc = r.L.AddCred(&Cred{Kind: "code", Val: code, G: g, Issued: now, Life: r.W.K.DocCodeLife(), Endpoint: "authorize", Delivered: true})
		r.secret(code, "authorization_code")
		r.checkMinted(code, "code")
	}
	if at != "" {
		ca = r.L.AddCred(&Cred{Kind: "at", Val: at, G: g, Issued: now, Endpoint: "authorize", Delivered: true,
			Life: r.overrideLife(cs, "implicit:access_token", r.W.K.DocATLife())})
		if con.PresetATExp > 0 {
			ca.Life = time.Duration(con.PresetATExp) * time.Second // session-provided lifetime
			r.probe("lifetime-source:session-provided")
		}
		var e int64
		fmt.Sscanf(p.Get("expires_in"), "%d", &e)
		ca.ExpiresIn = time.Duration(e) * time.Second
		if ca.Life > 0 && ca.ExpiresIn > 0 {
			if d := ca.ExpiresIn - ca.Life; d > Tol || d < -Tol {
				r.violate("C07", "expires-in-inconsistent", "implicit", "the authorization endpoint advertises expires_in=%s, the lifetime that applies is %s", ca.ExpiresIn, ca.Life)
			}
		}
		r.secret(at, "access_token")
		r.checkMinted(at, "at")
	}
	if id != "" {
		ci = r.L.AddCred(&Cred{Kind: "id", Val: id, G: g, Issued: now, Endpoint: "authorize", Delivered: true,
			Life: r.overrideLife(cs, "implicit:id_token", r.W.K.DocIDLife())})
	}
	r.lastAuthz.G = g
	r.logf("authz %s rt=%q scope=%q pkce=%s -> grant %d %s", cs.ID, rtype, q.Get("scope"), method, g.N, credNames(cc, ca, ci))
	r.Shape = append(r.Shape, "authz:"+origin)
	r.stat("authz:ok:" + origin)
	r.checkAuthorizeSuccess(st, cs, g, res, p)
	return g
}

// ---------------------------------------------------------------------------
// REDEEM (authorization_code grant)

func (r *Run) opRedeem(st Step) {
	code := r.L.Select(st.G, "code")
	if st.V == "latest" {
		code = r.L.SelectFromEnd(st.G, "code")
	}
	if code == nil {
		r.logf("redeem: no code yet")
		return
	}
	g := code.G
	cs := r.presenter(st, g.Client)
	form := url.Values{"grant_type": {"authorization_code"}}
	codeVal := code.Val
	if m := st.p("mutate"); m != "" {
		codeVal = mutateToken(codeVal, m, r)
	}
	form.Set("code", codeVal)
	// redirect_uri presentation
	sentRedirect := g.Redirect
	switch v := st.p("redir"); v {
	case "":
	case "omit":
		sentRedirect = ""
	case "other":
		sentRedirect = "https://other.example/cb"
		owner := r.specByID(g.Client)
		if owner != nil && len(owner.RedirectURIs) > 1 {
			for _, u := range owner.RedirectURIs {
				if u != g.Redirect {
					sentRedirect = u
					break
				}
			}
		}
	case "enc":
		sentRedirect = reencode(g.Redirect)
	case "slash":
		sentRedirect = g.Redirect + "/"
	case "add": // authorization request carried none, token request adds one
		owner := r.specByID(g.Client)
		if g.Redirect == "" && owner != nil && len(owner.RedirectURIs) > 0 {
			sentRedirect = owner.RedirectURIs[0]
		}
	default:
		sentRedirect = v
	}
	if sentRedirect != "" {
		form.Set("redirect_uri", sentRedirect)
	}
	// verifier presentation
	correct := g.Params["verifier"]
	ver := ""
	verKind := st.p("ver")
	switch verKind {
	case "":
		if g.Challenge != "" {
			ver, verKind = correct, "correct"
		} else {
			verKind = "none"
		}
	case "correct":
		ver = correct
		if ver == "" {
			ver = r.verifier(9000 + r.Idx)
		}
	case "none":
	case "wrong":
		ver = r.verifier(5000 + r.Idx)
	case "short":
		ver = strings.Repeat("a", 42)
	case "long":
		ver = strings.Repeat("a", 129)
	case "illegal":
		ver = r.verifier(6000 + r.Idx)[:49] + "!"
	case "othermethod":
		if g.Method == "S256" {
			ver = g.Challenge // what a "plain" comparison would accept
		} else {
			ver = s256(correct)
		}
	case "correct+illegal":
		ver = correct + " "
	case "attacker":
		ver = AttackerVerifier // the verifier of the challenge an attacker tried to slip in at the authorization endpoint
	}
	if ver != "" {
		form.Set("code_verifier", ver)
	}
	if s := st.p("scope"); s != "" {
		form.Set("scope", s)
	}
	if a := st.p("audience"); a != "" {
		form.Set("audience", a)
	}
	if gt := st.p("grant_type"); gt != "" {
		form.Set("grant_type", gt) // a space-separated LIST where a single value belongs
	}
	if cid := st.p("client_id"); cid != "" {
		if cid == "victim" {
			cid = g.Client // a foreign client naming the code's owner in the body while identifying itself in the header
		}
		form.Set("client_id", cid)
	}
	basic := r.applyAuth(cs, st.A, form)
	if st.A == "" && cs.OIDC && cs.AuthMethod == "private_key_jwt" {
		// assertion already placed
	}
	before := ""
	if r.W.Store.Copy {
		before = r.W.Store.DumpTables()
	}
	_ = before
	r.Tags = []string{"C01", "C02"}
	res := r.call("token", func() *Resp { return r.A.Token(form, basic) })
	r.judgeRedeem(st, code, cs, res, sentRedirect, ver, verKind, codeVal != code.Val)
}

func reencode(u string) string {
	// a different spelling of the same URI: percent-encode the last path character, or upper-case the host
	if i := strings.LastIndex(u, "/"); i >= 0 && i+1 < len(u) {
		c := u[i+1]
		return u[:i+1] + fmt.Sprintf("%%%02X", c) + u[i+2:]
	}
	return strings.ToUpper(u)
}

// pkceOK: independent RFC 7636 check: well-formed verifier that transforms to the challenge fixed at authorization.
func pkceOK(challenge, method, verifier string) bool {
	if len(verifier) < 43 || len(verifier) > 128 {
		return false
	}
	for _, c := range verifier {
		ok := (c >= 'A' && c <= 'Z') || (c >= 'a' && c <= 'z') || (c >= '0' && c <= '9') || c == '-' || c == '.' || c == '_' || c == '~'
		if !ok {
			return false
		}
	}
	switch method {
	case "S256":
		return s256(verifier) == challenge
	case "plain", "":
		return verifier == challenge
	}
	return false
}

func (r *Run) pkceEnforcedFor(cs *ClientSpec) bool {
	return r.W.K.EnforcePKCE || (r.W.K.EnforcePKCEPublic && cs != nil && cs.Public)
}

func (r *Run) judgeRedeem(st Step, code *Cred, cs *ClientSpec, res *Resp, sentRedirect, ver, verKind string, mutated bool) {
	g := code.G
	now := r.now()
	tokens := res.HasTokens()
	owner := r.specByID(g.Client)
	authOK := r.authOK(cs, st.A)
	exp, _ := r.L.Expect(code, now)
	desc := fmt.Sprintf("redeem %s by %s auth=%s redir=%s ver=%s", code.Name(), cs.ID, orOK(st.A), orSame(st.p("redir")), verKind)
	if mutated {
		desc += " mutate=" + st.p("mutate")
	}
	r.Shape = append(r.Shape, "redeem:"+code.State.String())

	if res.Crashed {
		r.logf("%s -> CRASHED", desc)
		r.faultedRequest(g, code, res)
		return
	}
	faulted := r.anyFault()
	outcome := res.ErrName
	if tokens {
		outcome = "tokens"
	}
	r.logf("%s -> %d %s", desc, res.Status, outcome)
	r.stat("redeem:" + outcome)
	if !mutated {
		r.reconverged(g, "C01", code.Name(), res, "GetAuthorizeCodeSession")
	}

	if mutated {
		r.probe("mutated:" + st.p("mutate"))
		if tokens {
			r.violate("C06", "tampered-accepted", "code", "a mutated authorization code (%s) was exchanged for tokens", st.p("mutate"))
		}
		// a forged code that carries the stored signature of a used code may trigger replay handling: not pinned down by any statement
		if faulted {
			g.Unspec = true
		}
		r.resync(g, "a mutated code was presented")
		return
	}
	if !authOK {
		if tokens {
			r.violate("C10", "tokens-without-client-auth", "authorization_code", "%s: tokens issued although client authentication was invalid (%s)", desc, st.A)
		} else if !faulted && res.ErrName != "invalid_client" && res.ErrName != "invalid_request" {
			r.violate("C10", "wrong-error-class", "authorization_code", "%s: expected invalid_client/invalid_request, got %s", desc, res.ErrName)
		}
		r.probe("bad-client-auth:authorization_code")
		r.noWrites("authorization_code", desc)
		r.probeGrant(g, "after a request with invalid client authentication")
		return
	}
	hasGrantType := len(cs.GrantTypes) == 0 || has(cs.GrantTypes, "authorization_code")
	if !hasGrantType {
		if tokens {
			r.violate("C13", "code-redeemed-without-grant-type", "", "%s: client lacks the authorization_code grant but obtained tokens", desc)
		}
		r.probeGrant(g, "after a refused redemption (client lacks grant type)")
		return
	}
	if st.p("grant_type") != "" {
		// grant_type carried a LIST: not a well-formed authorization_code request. Refusing it must not touch any state; if it is
		// served all the same, every rule about the code applies (below)
		r.probe("redeem-grant-type-list")
		if !tokens {
			r.probeGrant(g, "after a refused request with a grant_type list")
			return
		}
	}
	if code.Unspec || g.Unspec {
		if tokens && code.State != Live {
			r.violate("C01", "code-redeemed-twice", "", "%s: the code had already been redeemed and yielded tokens again", desc)
			if r.Fault.fired || g.Faulted {
				r.violate("C18", "invalidated-credential-honoured-again", "code", "%s: the code had been redeemed before a storage failure and yielded tokens again", desc)
			}
		}
		if tokens && !g.Vague && code.State == Live {
			// what earlier faults left of the server-side state is unknowable; to whom and to which redirect_uri the code is
			// bound, and for how long, is not
			var why []string
			if exp == MustNot {
				why = append(why, "C07", "C02")
			}
			if cs.ID != g.Client {
				why = append(why, "C02")
			}
			if g.Redirect != "" && sentRedirect != g.Redirect {
				why = append(why, "C02")
			}
			for _, p := range appendUniq(nil, why...) {
				r.violate(p, "redeem-must-refuse", "after-faults", "%s: tokens issued although the attempt had to be refused whatever earlier faults did to the grant (code age %s of %s, owner %s, authorised redirect %q)", desc, now.Sub(code.Issued), code.Life, g.Client, g.Redirect)
			}
			if len(why) > 0 {
				r.probe("binding-judged-after-faults")
			}
		}
		if tokens {
			r.onRedeemSuccess(st, code, cs, res)
		} else {
			g.Unspec = true
		}
		return
	}
	// replay of a spent code
	if code.State != Live {
		r.probe("code-replay")
		if tokens {
			r.violate("C01", "code-redeemed-twice", "", "%s: the code had already been redeemed and yielded tokens again", desc)
			r.onRedeemSuccess(st, code, cs, res)
			r.taint(g)
			return
		}
		if !faulted && res.ErrName != "invalid_grant" {
			r.violate("C01", "replay-wrong-error", "", "%s: replay by an authenticated client must be invalid_grant, got %s", desc, res.ErrName)
		}
		if !faulted {
			gens := 0
			for _, c := range g.Creds {
				if c.Kind == "rt" && c.Gen > gens {
					gens = c.Gen
				}
			}
			if gens >= 2 {
				r.probe("code-replay-after-2-refreshes")
			}
			r.L.KillFamily(g, "C01")
		} else {
			g.Unspec = true
		}
		r.probeAll("after the replay of " + code.Name())
		return
	}
	if r.Fault.fired && !r.Fault.mustRefuse() {
		// a sentinel answer injected at a read (e.g. "no PKCE / OIDC session") is judged as that state: what the request
		// then does is not an unexpected-failure question and not pinned down by the credential's real state
		if tokens {
			r.onRedeemSuccess(st, code, cs, res)
		}
		g.Unspec = true
		return
	}
	// live code: collect every reason the statements give for refusal
	var mustRefuse []string // property tags
	classInvalidGrant := false
	if exp == MustNot {
		mustRefuse = append(mustRefuse, "C07", "C02")
	}
	if cs.ID != g.Client {
		mustRefuse = append(mustRefuse, "C02")
		classInvalidGrant = true
		r.probe("redeem-foreign-client")
	}
	if g.Redirect != "" && sentRedirect != g.Redirect {
		mustRefuse = append(mustRefuse, "C02")
		classInvalidGrant = true
		r.probe("redeem-redirect-mismatch:" + orSame(st.p("redir")))
	}
	pkceSpecified := true
	if g.Challenge != "" {
		if !pkceOK(g.Challenge, g.Method, ver) {
			mustRefuse = append(mustRefuse, "C03")
			r.probe("pkce-bad-verifier:" + verKind)
			if g.FailedRedeems > 0 {
				r.probe("pkce-bad-verifier-after-failed-attempt")
			}
		}
	} else {
		if r.pkceEnforcedFor(owner) {
			mustRefuse = append(mustRefuse, "C03")
		} else if ver != "" {
			pkceSpecified = false // verifier without challenge, not enforced: outcome not pinned down by the statement
		}
	}
	if len(mustRefuse) > 0 {
		if tokens {
			for _, p := range appendUniq(nil, mustRefuse...) {
				r.violate(p, "redeem-must-refuse", verKind, "%s: tokens issued although the attempt had to be refused (code age %s of %s, owner %s, authorised redirect %q, challenge method %q, earlier failed attempts %d)",
					desc, now.Sub(code.Issued), code.Life, g.Client, g.Redirect, g.Method, g.FailedRedeems)
			}
			r.onRedeemSuccess(st, code, cs, res)
			r.taint(g)
			return
		}
		if classInvalidGrant && !faulted && res.ErrName != "invalid_grant" && exp != MustNot {
			r.violate("C02", "wrong-error-class", "", "%s: foreign client / different redirect_uri must be invalid_grant, got %s", desc, res.ErrName)
		}
		g.FailedRedeems++
		if has(mustRefuse, "C03") {
			g.FailedPKCE++
		}
		if faulted {
			g.Unspec = true
		}
		r.probeGrant(g, "after a refused redemption")
		return
	}
	if faulted {
		if tokens {
			if r.Fault.mustRefuse() {
				r.violate("C18", "tokens-despite-storage-failure", "authorization_code", "%s: a storage call failed (%s) but the response carries tokens", desc, r.Fault.desc())
			}
			r.onRedeemSuccess(st, code, cs, res)
		} else {
			r.faultedRequest(g, code, res)
		}
		return
	}
	if tokens {
		r.onRedeemSuccess(st, code, cs, res)
		return
	}
	// refused although no statement gives a reason
	if exp == Must && pkceSpecified && r.mustSucceedOK(g) && st.p("grant_type") == "" {
		if g.ViaPAR && g.Params["par_conflicts"] != "" {
			r.violate("C17", "pushed-value-overridden", "redeem", "%s: refused (%s) - the code was issued from a pushed request that was used with conflicting query parameters [%s]; the authorization must have proceeded with the pushed values", desc, res.ErrName, g.Params["par_conflicts"])
		} else if code.Extra["retry_must"] != "" {
			r.violate("C18", "retry-after-clean-failure-refused", "authorization_code", "%s: refused (%s) although the earlier storage failure left every record as it was: the credential must still be usable by its legitimate holder", desc, res.ErrName)
		} else if g.FailedPKCE > 0 {
			// an earlier attempt failed PKCE: whether the correct verifier still works afterwards is not pinned down (C03 is an only-if statement)
			r.probe("pkce-lockout-observed")
		} else if g.FailedRedeems > 0 {
			r.violate("C02", "rightful-holder-locked-out", "", "%s: refused (%s) after %d failed attempt(s) by a foreign client / with a different redirect_uri; the code must stay usable by its rightful holder", desc, res.ErrName, g.FailedRedeems)
		} else {
			r.sanity("%s refused with %s (%v) although every known reason for refusal is absent", desc, res.ErrName, res.Err)
			g.Unspec = true
			return
		}
	}
	g.FailedRedeems++
	if res.Status >= 500 {
		g.Unspec = true // an internal failure after the code handler committed leaves the grant in a state the ledger cannot know
	}
}

// mustSucceedOK: positive expectations are only asserted when lifetimes are in a sane relation (DESIGN §4).
func (r *Run) mustSucceedOK(g *Grant) bool {
	if g.OpenID && g.Nonce != "" && len(g.Nonce) < r.minEntropy() {
		return false // the code flow accepts a short nonce at the authorization endpoint and fails when the ID token is minted
	}
	if g.OpenID {
		if !g.PresetIDExp.IsZero() {
			return false
		}
		if g.Params["max_age"] != "" || g.Params["prompt"] != "" || g.Params["hint_subject"] != "" || g.Params["no_auth_time"] != "" || (g.Params["auth_ago"] != "" && g.Params["auth_ago"] != "0") {
			return false // OIDC conditions (max_age / prompt / id_token_hint / auth_time relation) may legitimately make ID-token issuance fail
		}
		if r.W.K.DocIDLife() < r.W.K.DocCodeLife() {
			return false
		}
		cs := r.specByID(g.Client)
		if cs != nil {
			for k := range cs.Lifespans {
				if strings.HasSuffix(k, ":id_token") {
					return false
				}
			}
		}
	}
	return true
}

func orOK(s string) string {
	if s == "" {
		return "ok"
	}
	return s
}
func orSame(s string) string {
	if s == "" {
		return "same"
	}
	return s
}

func (r *Run) onRedeemSuccess(st Step, code *Cred, cs *ClientSpec, res *Resp) {
	g := code.G
	r.L.Kill(code, Spent, "C01")
	at, rt, id := r.recordTokenResponse(res, g, 0, "authorization_code", cs)
	r.logf("   issued %s", credNames(at, rt, id))
	r.checkTokenResponse("authorization_code", g, cs, res, at, rt, id, code)
	if id != nil && g.Params["auth_ago"] != "" {
		r.checkIDTokenConditions(g, "token endpoint")
	}
	r.probeGrant(g, "right after issuance")
}

// ---------------------------------------------------------------------------
// REFRESH

func (r *Run) opRefresh(st Step) {
	rt := r.L.Select(st.G, "rt")
	if st.V == "latest" {
		rt = r.L.SelectFromEnd(st.G, "rt")
	}
	if rt == nil {
		r.logf("refresh: no refresh token yet")
		return
	}
	g := rt.G
	cs := r.presenter(st, g.Client)
	form := url.Values{"grant_type": {"refresh_token"}}
	val := rt.Val
	if m := st.p("mutate"); m != "" {
		val = mutateToken(val, m, r)
	}
	form.Set("refresh_token", val)
	if s := st.p("scope"); s != "" {
		form.Set("scope", s)
	}
	if a := st.p("audience"); a != "" {
		form.Set("audience", a)
	}
	basic := r.applyAuth(cs, st.A, form)
	r.Tags = []string{"C04", "C05"}
	res := r.call("token", func() *Resp { return r.A.Token(form, basic) })
	r.judgeRefresh(st, rt, cs, res, val != rt.Val)
}

func (r *Run) judgeRefresh(st Step, rt *Cred, cs *ClientSpec, res *Resp, mutated bool) {
	g := rt.G
	now := r.now()
	tokens := res.HasTokens()
	authOK := r.authOK(cs, st.A)
	exp, why := r.L.Expect(rt, now)
	desc := fmt.Sprintf("refresh %s(gen %d, %s) by %s auth=%s", rt.Name(), rt.Gen, rt.State, cs.ID, orOK(st.A))
	if mutated {
		desc += " mutate=" + st.p("mutate")
	}
	r.Shape = append(r.Shape, "refresh:"+rt.State.String())
	if res.Crashed {
		r.logf("%s -> CRASHED", desc)
		r.faultedRequest(g, rt, res)
		return
	}
	faulted := r.anyFault()
	outcome := res.ErrName
	if tokens {
		outcome = "tokens"
	}
	r.logf("%s -> %d %s", desc, res.Status, outcome)
	r.stat("refresh:" + outcome)
	if !mutated {
		r.reconverged(g, "C04", rt.Name(), res, "GetRefreshTokenSession")
	}
	if mutated {
		r.probe("mutated:" + st.p("mutate"))
		if tokens {
			r.violate("C06", "tampered-accepted", "rt", "a mutated refresh token (%s) was exchanged", st.p("mutate"))
		}
		if faulted {
			g.Unspec = true // a forged token with a stored signature can reach state-changing branches; with a fault inside them the grant's state is unknowable
		}
		r.resync(g, "a mutated refresh token was presented")
		return
	}
	if !authOK {
		if tokens {
			r.violate("C10", "tokens-without-client-auth", "refresh_token", "%s: tokens issued although client authentication was invalid", desc)
		} else if !faulted && res.ErrName != "invalid_client" && res.ErrName != "invalid_request" {
			r.violate("C10", "wrong-error-class", "refresh_token", "%s: expected invalid_client/invalid_request, got %s", desc, res.ErrName)
		}
		r.probe("bad-client-auth:refresh_token")
		r.noWrites("refresh_token", desc)
		r.probeGrant(g, "after a request with invalid client authentication")
		return
	}
	if !has(cs.GrantTypes, "refresh_token") {
		if tokens {
			r.violate("C05", "refresh-without-grant-type", "", "%s: client is not registered for refresh_token but the token was honoured", desc)
		}
		r.probeGrant(g, "after a refused refresh (client lacks grant type)")
		return
	}
	if rt.Unspec || g.Unspec {
		if tokens && rt.State != Live {
			r.violate("C04", "dead-refresh-token-honoured", "", "%s: the token was %s (%v) and yielded tokens again", desc, rt.State, rt.Why)
			if r.Fault.fired || g.Faulted {
				r.violate("C18", "invalidated-credential-honoured-again", "rt", "%s: the refresh token had been invalidated before a storage failure and yielded tokens again", desc)
			}
		}
		if tokens && !g.Vague && rt.State == Live {
			var why []string
			if exp == MustNot {
				why = append(why, "C07")
			}
			if cs.ID != g.Client {
				why = append(why, "C05")
			}
			for _, p := range appendUniq(nil, why...) {
				r.violate(p, "refresh-must-refuse", "after-faults", "%s: honoured although it had to be refused whatever earlier faults did to the grant (age %s of %s, owner %s)", desc, now.Sub(rt.Issued), rt.Life, g.Client)
			}
			if len(why) > 0 {
				r.probe("binding-judged-after-faults")
			}
		}
		if tokens {
			r.onRefreshSuccess(st, rt, cs, res)
		} else {
			g.Unspec = true // an unknowable credential reached a state-changing branch: the whole grant is unknowable now
		}
		return
	}
	if rt.State != Live {
		// reuse of a rotated (or revoked) refresh token
		r.probe("rt-reuse")
		latest := 0
		for _, c := range g.Creds {
			if c.Kind == "rt" && c.Gen > latest {
				latest = c.Gen
			}
		}
		if rt.Gen < latest-1 {
			r.probe("rt-reuse-non-latest-generation")
		}
		if cs.ID != g.Client {
			r.probe("rt-reuse-by-foreign-client")
		}
		if tokens {
			for _, p := range appendUniq([]string{"C04"}, why...) {
				r.violate(p, "dead-refresh-token-honoured", "", "%s: the token was %s (%v) and yielded tokens again", desc, rt.State, rt.Why)
			}
			r.onRefreshSuccess(st, rt, cs, res)
			r.taint(g)
			return
		}
		used := rt.State == Spent
		if used && !faulted && res.ErrName != "invalid_grant" {
			r.violate("C04", "reuse-wrong-error", "", "%s: an already-used refresh token must be refused with invalid_grant, got %s", desc, res.ErrName)
		}
		if used {
			if faulted {
				g.Unspec = true
			} else {
				r.L.KillFamily(g, "C04")
			}
		}
		r.probeAll("after the reuse of " + rt.Name())
		return
	}
	var mustRefuse []string
	if exp == MustNot {
		mustRefuse = append(mustRefuse, "C07")
		r.probe("refresh-expired")
	}
	if cs.ID != g.Client {
		mustRefuse = append(mustRefuse, "C05")
		r.probe("refresh-foreign-client")
	}
	if !r.registrationCovers(cs, g) {
		mustRefuse = append(mustRefuse, "C05", "C12")
		r.probe("refresh-registration-narrowed")
	}
	if len(mustRefuse) > 0 {
		if tokens {
			for _, p := range appendUniq(nil, mustRefuse...) {
				r.violate(p, "refresh-must-refuse", "", "%s: honoured although it had to be refused (age %s of %s, owner %s, granted %v / %v, registration %v / %v)", desc,
					now.Sub(rt.Issued), rt.Life, g.Client, g.Scopes, g.Audience, cs.Scopes, cs.Audience)
			}
			r.onRefreshSuccess(st, rt, cs, res)
			r.taint(g)
			return
		}
		if faulted {
			g.Unspec = true
		}
		r.probeGrant(g, "after a refused refresh")
		return
	}
	if r.Fault.fired && !r.Fault.mustRefuse() {
		// a sentinel answer injected at a read ("this refresh token is inactive / unknown") is judged as that state: the request
		// then legitimately runs reuse handling (and commits it) or refuses; what a SECOND fault inside that branch does is not
		// an atomicity question about the issuing transaction
		if tokens {
			r.onRefreshSuccess(st, rt, cs, res)
		}
		g.Unspec = true
		return
	}
	if faulted {
		if tokens {
			if r.Fault.mustRefuse() {
				r.violate("C18", "tokens-despite-storage-failure", "refresh_token", "%s: a storage call failed (%s) but the response carries tokens", desc, r.Fault.desc())
			}
			r.onRefreshSuccess(st, rt, cs, res)
		} else {
			r.faultedRequest(g, rt, res)
		}
		return
	}
	if tokens {
		r.onRefreshSuccess(st, rt, cs, res)
		return
	}
	if exp == Must && r.refreshScopeOK(g) && r.mustSucceedOK(g) {
		if rt.Extra["retry_must"] != "" {
			r.violate("C18", "retry-after-clean-failure-refused", "refresh_token", "%s: refused (%s) although the earlier storage failure left every record as it was", desc, res.ErrName)
		} else {
			r.sanity("%s refused with %s (%v; %s) although every known reason for refusal is absent", desc, res.ErrName, res.Err, truncate(res.Body, 300))
		}
		g.Unspec = true
	}
}

// reconverged: the server itself recognised the presented credential as already used (its record is stored as inactive /
// invalidated) and this request ran WITHOUT any fault. Whatever earlier storage failures, crashes or half-applied requests did
// to the grant, from this moment every token the token endpoint issued for it must be inactive. This is the one rule that is
// judged on grants whose state the ledger otherwise no longer knows (Unspec): faults stop, the system has to converge.
func (r *Run) reconverged(g *Grant, prop, what string, res *Resp, readCall string) {
	if g == nil || res == nil || res.Crashed || r.anyFault() || res.HasTokens() || res.ErrName != "invalid_grant" {
		return
	}
	seen := false
	for _, c := range res.Trace {
		if c == readCall+":INACTIVE" {
			seen = true
		}
	}
	if !seen {
		return
	}
	r.probe("reconverge:" + prop)
	if g.Unspec || g.Faulted {
		r.probe("reconverge-after-fault:" + prop)
	}
	for _, c := range g.Creds {
		if (c.Kind != "at" && c.Kind != "rt") || c.Endpoint != "token" {
			continue
		}
		if c.Kind == "rt" && r.W.K.DisableRTValidation {
			continue
		}
		if active, _ := r.introspectCred(c); active {
			r.violate(prop, "survives-detected-reuse", c.Kind, "%s is still active after %s was recognised as already used and refused (fault-free request; earlier faults on this grant: %v)", c.Name(), what, g.Unspec || g.Faulted)
		}
	}
}

func (r *Run) refreshScopeOK(g *Grant) bool {
	rs := r.W.K.DocRefreshScopes()
	return len(rs) == 0 || hasOneOf(g.Scopes, rs)
}

// registrationCovers: is the (current) registration still allowed every originally granted scope and audience?
// Uses the independent reference matchers (refmatch.go).
func (r *Run) registrationCovers(cs *ClientSpec, g *Grant) bool {
	for _, s := range g.Scopes {
		if v := RefScopeMatch(r.W.K.ScopeStrategy, cs.Scopes, s); v == No {
			return false
		}
	}
	for _, a := range g.Audience {
		if v := RefAudienceMatch(r.W.K.AudStrategy, cs.Audience, a); v == No {
			return false
		}
	}
	return true
}

func (r *Run) onRefreshSuccess(st Step, rt *Cred, cs *ClientSpec, res *Resp) {
	g := rt.G
	r.L.Kill(rt, Spent, "C04")
	if rt.Pair != nil {
		r.L.Kill(rt.Pair, Dead, "C04")
	}
	at, nrt, id := r.recordTokenResponse(res, g, rt.Gen+1, "refresh_token", cs)
	r.logf("   rotated to %s", credNames(at, nrt, id))
	if rt.Gen+1 >= 3 {
		r.probe("chain-depth>=3")
	}
	if at == nil || nrt == nil {
		r.violate("C04", "rotation-incomplete", "", "refresh of %s succeeded but did not return a new access/refresh pair", rt.Name())
	}
	r.checkTokenResponse("refresh_token", g, cs, res, at, nrt, id, nil)
	// what a rotation does to access tokens the AUTHORIZATION endpoint delivered for the same grant (hybrid flow) is not pinned down
	for _, c := range g.Creds {
		if c.Kind == "at" && c.Endpoint == "authorize" && c.State == Live && !c.Unspec {
			if e, _ := r.L.Expect(c, r.now()); e == Must {
				if active, _ := r.introspectCred(c); !active {
					r.L.Kill(c, Dead)
					r.stat("resync-dead")
				}
			}
		}
	}
	r.probeGrant(g, "right after rotation")
}

// ---------------------------------------------------------------------------
// PASSWORD / CLIENT CREDENTIALS

func (r *Run) opPassword(st Step) {
	cs := r.clientSpec(st.C)
	user := st.p("user")
	if user == "" {
		user = "peter"
	}
	pw := r.W.K.Users[user]
	if st.V == "bad_password" {
		pw += "x"
	}
	form := url.Values{"grant_type": {"password"}, "username": {user}, "password": {pw}}
	if s := st.p("scope"); s != "" {
		form.Set("scope", s)
	}
	if a := st.p("aud"); a != "" {
		form.Set("audience", a)
	}
	basic := r.applyAuth(cs, st.A, form)
	res := r.call("token", func() *Resp { return r.A.Token(form, basic) })
	tokens := res.HasTokens()
	desc := fmt.Sprintf("password %s user=%s v=%s auth=%s scope=%q", cs.ID, user, st.V, orOK(st.A), st.p("scope"))
	r.logf("%s -> %d %s", desc, res.Status, outcomeOf(res))
	r.Shape = append(r.Shape, "password")
	if res.Crashed {
		return
	}
	if !r.authOK(cs, st.A) {
		r.judgeBadAuth("password", desc, res)
		return
	}
	if st.V == "bad_password" && tokens {
		r.violate("C10", "tokens-with-wrong-user-password", "", "%s", desc)
	}
	if !tokens {
		return
	}
	if r.Fault.mustRefuse() {
		r.violate("C18", "tokens-despite-storage-failure", "password", "%s: a storage call failed (%s) but the response carries tokens", desc, r.Fault.desc())
	}
	g := r.L.NewGrant(&Grant{Client: cs.ID, Origin: "password", Scopes: splitNonEmpty(st.p("scope")), Audience: splitNonEmpty(st.p("aud")), ReqAt: r.now()})
	g.OpenID = has(g.Scopes, "openid")
	at, rt, id := r.recordTokenResponse(res, g, 0, "password", cs)
	if at != nil {
		// the subject of a password grant is assigned by the application's user store: learn it from the first introspection
		if active, ar := r.introspectCred(at); active && ar != nil {
			g.Subject = ar.GetSession().GetSubject()
		}
	}
	r.logf("   grant %d issued %s", g.N, credNames(at, rt, id))
	r.checkTokenResponse("password", g, cs, res, at, rt, id, nil)
	r.checkConfinement("password", cs, g, desc)
	r.probeGrant(g, "right after issuance")
}

func outcomeOf(res *Resp) string {
	if res.Crashed {
		return "CRASHED"
	}
	if res.HasTokens() {
		return "tokens"
	}
	return res.ErrName
}

func (r *Run) judgeBadAuth(kind, desc string, res *Resp) {
	r.probe("bad-client-auth:" + kind)
	if !res.Crashed {
		r.noWrites(kind, desc)
	}
	if res.HasTokens() {
		r.violate("C10", "tokens-without-client-auth", kind, "%s: tokens issued although client authentication was invalid", desc)
	} else if !r.anyFault() && res.ErrName != "invalid_client" && res.ErrName != "invalid_request" {
		r.violate("C10", "wrong-error-class", kind, "%s: expected invalid_client/invalid_request, got %s", desc, res.ErrName)
	}
}

func (r *Run) opClientCredentials(st Step) {
	cs := r.clientSpec(st.C)
	form := url.Values{"grant_type": {"client_credentials"}}
	if s := st.p("scope"); s != "" {
		form.Set("scope", s)
	}
	if a := st.p("aud"); a != "" {
		form.Set("audience", a)
	}
	basic := r.applyAuth(cs, st.A, form)
	res := r.call("token", func() *Resp { return r.A.Token(form, basic) })
	tokens := res.HasTokens()
	desc := fmt.Sprintf("client_credentials %s auth=%s scope=%q aud=%q", cs.ID, orOK(st.A), st.p("scope"), st.p("aud"))
	r.logf("%s -> %d %s", desc, res.Status, outcomeOf(res))
	r.Shape = append(r.Shape, "cc")
	if res.Crashed {
		return
	}
	if cs.Public && tokens {
		r.violate("C10", "public-client-credentials", "", "%s: a public client obtained tokens through client_credentials", desc)
	}
	if !r.authOK(cs, st.A) {
		r.judgeBadAuth("client_credentials", desc, res)
		return
	}
	if !tokens {
		return
	}
	if r.Fault.mustRefuse() {
		r.violate("C18", "tokens-despite-storage-failure", "client_credentials", "%s: a storage call failed (%s) but the response carries tokens", desc, r.Fault.desc())
	}
	g := r.L.NewGrant(&Grant{Client: cs.ID, Origin: "client_credentials", Subject: cs.ID, Scopes: splitNonEmpty(st.p("scope")), Audience: splitNonEmpty(st.p("aud")), ReqAt: r.now()})
	at, rt, id := r.recordTokenResponse(res, g, 0, "client_credentials", cs)
	r.logf("   grant %d issued %s", g.N, credNames(at, rt, id))
	if rt != nil {
		r.violate("C05", "refresh-token-for-client-credentials", "", "%s returned a refresh token", desc)
	}
	r.checkConfinement("client_credentials", cs, g, desc)
	r.probeGrant(g, "right after issuance")
}

// ---------------------------------------------------------------------------
// INTROSPECT (HTTP endpoint) / REVOKE

func (r *Run) opIntrospect(st Step) {
	c := r.L.Select(st.G, "at", "rt")
	if c == nil {
		r.logf("introspect: nothing to introspect")
		return
	}
	caller := r.clientSpec(st.C)
	form := url.Values{}
	val := c.Val
	if m := st.p("mutate"); m != "" {
		val = mutateToken(val, m, r)
	}
	form.Set("token", val)
	switch st.V {
	case "hint_right":
		form.Set("token_type_hint", map[string]string{"at": "access_token", "rt": "refresh_token"}[c.Kind])
	case "hint_wrong":
		form.Set("token_type_hint", map[string]string{"rt": "access_token", "at": "refresh_token"}[c.Kind])
	case "hint_garbage":
		form.Set("token_type_hint", "garbage_hint")
	}
	reqScopes := splitNonEmpty(st.p("scope"))
	if len(reqScopes) > 0 {
		form.Set("scope", strings.Join(reqScopes, " "))
	}
	var basic *Basic
	bearer := ""
	callerOK := false
	switch st.A {
	case "", "ok":
		// confidential caller with basic credentials
		if caller.Public {
			basic = &Basic{User: caller.ID, Pass: ""}
		} else {
			basic = &Basic{User: caller.ID, Pass: caller.Secret}
			callerOK = caller.Secret != "" // a confidential client without secret material (private_key_jwt) cannot use Basic
		}
	case "bad_secret":
		basic = &Basic{User: caller.ID, Pass: caller.Secret + "x"}
	case "none":
	case "bearer", "bearer_dead", "bearer_same", "bearer_rt":
		var b *Cred
		switch st.A {
		case "bearer_same":
			b = c
		case "bearer_rt":
			b = r.L.Select(int(st.D), "rt")
		default:
			b = r.L.Select(int(st.D), "at")
		}
		if b == nil {
			r.logf("introspect: no bearer credential available")
			return
		}
		bearer = b.Val
		be, _ := r.L.Expect(b, r.now())
		switch {
		case b == c:
			callerOK = false
		case b.Kind != "at":
			callerOK = false
			if r.W.K.DisableRTValidation {
				callerOK = false
			}
		case be == Must:
			callerOK = true
		case be == MustNot:
			callerOK = false
		default:
			r.logf("introspect: bearer %s validity unspecified, skipping", b.Name())
			return
		}
	}
	res := r.call("introspect", func() *Resp { return r.A.Introspect(form, basic, bearer) })
	active, _ := res.JSON["active"].(bool)
	desc := fmt.Sprintf("introspect %s hint=%s caller=%s/%s scope=%v", c.Name(), st.V, caller.ID, orOK(st.A), reqScopes)
	r.logf("%s -> %d active=%v %s", desc, res.Status, active, res.ErrName)
	r.Shape = append(r.Shape, "introspect")
	if res.Crashed {
		return
	}
	if !callerOK {
		r.probe("introspect-unauthenticated:" + orOK(st.A))
		if active || len(res.JSON) > 1 && res.JSON["active"] != nil {
			r.violate("C09", "introspection-answered-unauthenticated-caller", orOK(st.A), "%s: the caller was not authenticated but got an answer: %s", desc, res.Body)
		}
		if res.Err == nil {
			r.violate("C09", "introspection-accepted-unauthenticated-caller", orOK(st.A), "%s: the request was accepted", desc)
		}
		return
	}
	if r.anyFault() {
		return
	}
	if val != c.Val {
		r.probe("mutated:" + st.p("mutate"))
		if active {
			r.violate("C06", "tampered-accepted", c.Kind, "introspection reports a mutated %s (%s) active", c.Kind, st.p("mutate"))
			r.violate("C09", "tampered-active", c.Kind, "introspection reports a mutated %s (%s) active", c.Kind, st.p("mutate"))
		}
		return
	}
	if c.Kind == "rt" && r.W.K.DisableRTValidation {
		r.probe("introspect-rt-while-disabled:" + st.V)
		if active {
			r.violate("C09", "refresh-token-active-although-introspection-disabled", st.V, "%s: a refresh token is reported active although refresh-token validation is disabled: %s", desc, truncate(res.Body, 200))
		}
		return
	}
	exp, why := r.L.Expect(c, r.now())
	scopesCovered := Yes
	for _, s := range reqScopes {
		switch RefScopeMatch(r.W.K.ScopeStrategy, c.G.Scopes, s) {
		case No:
			scopesCovered = No
		case Open:
			if scopesCovered == Yes {
				scopesCovered = Open
			}
		}
	}
	if len(reqScopes) > 0 {
		r.probe("introspect-with-required-scopes")
	}
	switch {
	case exp == MustNot && active:
		for _, p := range appendUniq(append([]string{}, why...), "C09") {
			r.violate(p, "honoured-but-must-not", c.Kind, "%s: reported active although %s is %s (%v)", desc, c.Name(), c.State, c.Why)
		}
	case exp == Must && scopesCovered == No && active:
		r.violate("C09", "active-despite-uncovered-scope", "", "%s: required scopes %v are not covered by granted %v", desc, reqScopes, c.G.Scopes)
	case exp == Must && scopesCovered == Yes && !active:
		r.violate("C09", "refused-but-must", c.Kind, "%s: reported inactive although live, unexpired and scopes covered", desc)
	}
	if !active {
		if len(res.JSON) != 1 {
			r.violate("C09", "inactive-response-leaks", "", "%s: inactive response must be exactly {\"active\":false}, got %s", desc, res.Body)
		}
		return
	}
	if exp != Must {
		return
	}
	// payload truthfulness
	g := c.G
	bad := ""
	if cid, _ := res.JSON["client_id"].(string); cid != g.Client {
		bad = fmt.Sprintf("client_id %q != %q", cid, g.Client)
	}
	if sc, _ := res.JSON["scope"].(string); !sameSet(splitNonEmpty(sc), g.Scopes) {
		bad = fmt.Sprintf("scope %q != granted %v", sc, g.Scopes)
	}
	var aud []string
	if a, ok := res.JSON["aud"].([]interface{}); ok {
		for _, x := range a {
			if s, ok := x.(string); ok {
				aud = append(aud, s)
			}
		}
	}
	if !sameSet(aud, g.Audience) {
		bad = fmt.Sprintf("aud %v != granted %v", aud, g.Audience)
	}
	if sub, _ := res.JSON["sub"].(string); g.Subject != "" && sub != g.Subject {
		bad = fmt.Sprintf("sub %q != %q", sub, g.Subject)
	}
	wantUse := map[string]string{"at": "access_token", "rt": "refresh_token"}[c.Kind]
	if tu := res.TokenUse; tu != wantUse {
		bad = fmt.Sprintf("token_use %q != %q", tu, wantUse)
	}
	if c.Kind == "at" && c.Life > 0 {
		if e, ok := res.JSON["exp"].(float64); ok {
			want := c.Issued.Add(c.Life)
			got := time.Unix(int64(e), 0)
			if got.Sub(want) > Tol || want.Sub(got) > Tol {
				bad = fmt.Sprintf("exp %s differs from the token's real expiry %s", got.UTC().Format(time.RFC3339), want.UTC().Format(time.RFC3339))
			}
		} else {
			bad = "exp missing for an access token"
		}
	}
	if bad != "" {
		r.violate("C09", "introspection-payload-wrong", c.Kind, "%s: %s", desc, bad)
	}
}

func (r *Run) opRevoke(st Step) {
	c := r.L.Select(st.G, "at", "rt")
	if c == nil {
		r.logf("revoke: nothing to revoke")
		return
	}
	g := c.G
	cs := r.presenter(st, g.Client)
	form := url.Values{}
	val := c.Val
	if m := st.p("mutate"); m != "" {
		val = mutateToken(val, m, r)
	}
	form.Set("token", val)
	switch st.V {
	case "hint_right":
		form.Set("token_type_hint", map[string]string{"at": "access_token", "rt": "refresh_token"}[c.Kind])
	case "hint_wrong":
		form.Set("token_type_hint", map[string]string{"rt": "access_token", "at": "refresh_token"}[c.Kind])
	case "hint_garbage":
		form.Set("token_type_hint", "garbage_hint")
	}
	basic := r.applyAuth(cs, st.A, form)
	r.Tags = []string{"C08"}
	res := r.call("revoke", func() *Resp { return r.A.Revoke(form, basic) })
	desc := fmt.Sprintf("revoke %s(%s) hint=%s by %s auth=%s", c.Name(), c.State, st.V, cs.ID, orOK(st.A))
	if val != c.Val {
		desc += " mutate=" + st.p("mutate")
	}
	r.logf("%s -> %d %s", desc, res.Status, res.ErrName)
	r.Shape = append(r.Shape, "revoke:"+c.Kind)
	if res.Crashed {
		g.Unspec = true
		return
	}
	if r.anyFault() {
		r.faultedRequest(g, c, res)
		g.Unspec = true
		return
	}
	exp, _ := r.L.Expect(c, r.now())
	switch {
	case !r.authOK(cs, st.A):
		r.probe("revoke-unauthenticated")
		r.probe("bad-client-auth:revoke")
		r.noWrites("revoke", desc)
		if !r.anyFault() && res.ErrName != "invalid_client" && res.ErrName != "invalid_request" && res.Err != nil {
			r.violate("C10", "wrong-error-class", "revoke", "%s: expected invalid_client/invalid_request, got %s", desc, res.ErrName)
		}
		if res.Err == nil {
			r.violate("C08", "revocation-accepted-unauthenticated", orOK(st.A), "%s: accepted", desc)
		}
		r.probeAll("after an unauthenticated revocation request")
	case val != c.Val:
		r.probe("mutated:" + st.p("mutate"))
		if sameSignaturePart(c.Val, val) {
			// the revocation endpoint looks tokens up by their signature part and does not validate the random part:
			// a forged token carrying a stored signature is not "unknown" to it. Not pinned down by C06/C08 => follow the outcome.
			r.resync(g, "a forged token with a stored signature was revoked")
			return
		}
		if res.Err != nil {
			r.violate("C08", "unknown-token-not-success", "", "%s: unknown token must be answered with success, got %s", desc, res.ErrName)
		}
		r.probeAll("after revoking an unknown token")
	case c.Unspec || g.Unspec || exp == Unspec:
		g.Unspec = true
		if res.Err == nil && cs.ID == g.Client && !g.Vague && c.Endpoint == "token" {
			// accepted from the owning client in a fault-free request: whatever earlier faults left behind, the presented token is
			// inactive from now on (revoked now, or it was already invalid)
			r.probe("revoke-owner-after-faults")
			// Only the presented token is judged: if it was ALREADY invalid (which the ledger cannot know here) the request is
			// answered with success "without changing anything", and a sibling that an earlier fault left alive may live on.
			if !(c.Kind == "rt" && r.W.K.DisableRTValidation) {
				if active, _ := r.introspectCred(c); active {
					r.violate("C08", "honoured-but-must-not", c.Kind+":after-faults", "%s is reported active although the owner's revocation of it was accepted (fault-free request on a grant that met faults earlier)", c.Name())
				}
			}
		}
	case c.State != Live || exp == MustNot:
		r.probe("revoke-already-invalid:" + c.State.String())
		// already rotated / revoked / expired. A foreign caller may be told unauthorized_client or success; the owner gets success.
		if cs.ID == g.Client && res.Err != nil {
			r.violate("C08", "invalid-token-not-success", c.State.String(), "%s: already-invalid token must be answered with success, got %s", desc, res.ErrName)
		}
		forgotten := c.State == Dead && has(c.Why, "C06") // its minting secret was dropped: invalid, but the record is still stored
		if (c.State == Live || forgotten) && cs.ID == g.Client {
			// expired (or no longer verifiable) but still stored token revoked by its owner: "answered with success without changing anything"
			kind := "expired-"
			if forgotten {
				kind = "secret-forgotten-"
			}
			r.L.Kill(c, Dead, "C08")
			for _, o := range g.Creds {
				if o == c || (o.Kind != "at" && o.Kind != "rt") || o.State != Live || o.Unspec {
					continue
				}
				if o.Kind == "rt" && r.W.K.DisableRTValidation {
					o.Unspec = true
					continue
				}
				if e, _ := r.L.Expect(o, r.now()); e != Must {
					continue
				}
				if active, _ := r.introspectCred(o); !active {
					r.violate("C08", "invalid-token-revocation-changed-state", kind+c.Kind+"->"+o.Kind, "%s: revoking the already-invalid %s made the still-valid %s of the same grant inactive", desc, c.Name(), o.Name())
					r.L.Kill(o, Dead)
				}
			}
		}
		r.probeAll("after revoking an already-invalid token")
	case cs.ID != g.Client:
		r.probe("revoke-foreign-client")
		if res.ErrName != "unauthorized_client" {
			r.violate("C08", "foreign-revocation-wrong-answer", "", "%s: a different client must be refused as unauthorized_client, got %q", desc, res.ErrName)
		}
		r.probeAll("after a foreign client's revocation request")
	default:
		if res.Err != nil {
			r.sanity("%s refused with %s", desc, res.ErrName)
			g.Unspec = true
			return
		}
		r.probe("revoke-owner:" + c.Kind + ":" + st.V)
		r.L.Kill(c, Dead, "C08")
		if c.Pair != nil {
			r.L.Kill(c.Pair, Dead, "C08")
		}
		// what an accepted revocation does to OTHER tokens of the same grant is not pinned down (RFC 7009 allows it)
		r.resync(g, "the owner revoked "+c.Name())
		r.probeAll("after the owner revoked " + c.Name())
	}
}

// sameSignaturePart: does the forged token still carry the stored signature (the storage key)?
func sameSignaturePart(orig, forged string) bool {
	a, b := strings.Split(orig, "."), strings.Split(forged, ".")
	return len(a) == len(b) && len(a) >= 2 && a[len(a)-1] == b[len(b)-1] && a[len(a)-1] != ""
}
