package sim

import (
	"bytes"
	"context"
	"encoding/json"
	"errors"
	"io"
	"net/http"
	"time"

	jose "github.com/go-jose/go-jose/v3"
	"github.com/hashicorp/go-retryablehttp"

	"github.com/ory/fosite"
)

// SimNet is the simulated network for jwks_uri and request_uri fetches: no sockets, faults decided by the plan.
type SimNet struct {
	JWKS    map[string]*jose.JSONWebKeySet // location -> current key set
	Stale   map[string]*jose.JSONWebKeySet // location -> stale key set served from "cache" (ignoreCache=false)
	Docs    map[string]string              // request_uri location -> body
	Fault   map[string]string              // location -> next fault: drop | 5xx | garbage | delay
	Fetches int
	Fired   map[string]int
}

func NewSimNet() *SimNet {
	return &SimNet{JWKS: map[string]*jose.JSONWebKeySet{}, Stale: map[string]*jose.JSONWebKeySet{}, Docs: map[string]string{}, Fault: map[string]string{}, Fired: map[string]int{}}
}

func (n *SimNet) takeFault(loc string) string {
	f := n.Fault[loc]
	if f != "" {
		delete(n.Fault, loc)
		n.Fired["net-"+f]++
	}
	return f
}

// Resolve implements fosite.JWKSFetcherStrategy.
func (n *SimNet) Resolve(ctx context.Context, location string, ignoreCache bool) (*jose.JSONWebKeySet, error) {
	n.Fetches++
	if !ignoreCache {
		if s, ok := n.Stale[location]; ok {
			n.Fired["net-stale-keys"]++
			return s, nil
		}
	}
	switch n.takeFault(location) {
	case "drop":
		return nil, fosite.ErrServerError.WithHint("simulated network: connection dropped")
	case "5xx":
		return nil, fosite.ErrServerError.WithHint("simulated network: 503")
	case "garbage":
		return nil, fosite.ErrServerError.WithHint("simulated network: undecodable key set")
	case "delay":
		time.Sleep(3 * time.Second) // fake clock
	}
	ks, ok := n.JWKS[location]
	if !ok {
		return nil, fosite.ErrServerError.WithHint("simulated network: no such host")
	}
	return ks, nil
}

// RoundTrip implements http.RoundTripper for request_uri fetches.
func (n *SimNet) RoundTrip(r *http.Request) (*http.Response, error) {
	n.Fetches++
	loc := r.URL.String()
	mk := func(code int, body string) *http.Response {
		return &http.Response{StatusCode: code, Status: http.StatusText(code), Body: io.NopCloser(bytes.NewBufferString(body)), Header: http.Header{}, Request: r, Proto: "HTTP/1.1", ProtoMajor: 1, ProtoMinor: 1}
	}
	switch n.takeFault(loc) {
	case "drop":
		return nil, errors.New("simulated network: connection reset")
	case "5xx":
		return mk(503, "unavailable"), nil
	case "garbage":
		return mk(200, "\x00\xff<not a jwt>"), nil
	case "delay":
		time.Sleep(3 * time.Second)
	}
	if ks, ok := n.JWKS[loc]; ok {
		b, _ := json.Marshal(ks)
		return mk(200, string(b)), nil
	}
	if d, ok := n.Docs[loc]; ok {
		return mk(200, d), nil
	}
	return mk(404, "not found"), nil
}

func (n *SimNet) RetryableClient() *retryablehttp.Client {
	c := retryablehttp.NewClient()
	c.HTTPClient = &http.Client{Transport: n}
	c.Logger = nil
	c.RetryMax = 0
	return c
}
