package sim

import (
	"fmt"
	"net/url"
	"strings"
	"unicode/utf8"
)

// Hostile literals: quotes, control characters, HTML, invalid UTF-8, header injection, broken escapes.
var hostile = []string{
	`"><script>alert(1)</script>`,
	`a"b'c\d`,
	"x\x00\x01\x1fy",
	"\xff\xfe\xfd",
	"é✓ 漢字",
	"%zz%",
	"line1\r\nSet-Cookie: a=b",
	`</form><form action="https://evil.example">`,
	"&amp;&lt;tag&gt;&#x27;",
	`{"json":"inject"}`,
}

func init() {
	extraOps["hostile"] = (*Run).opHostile
}

// opHostile sends a request that must fail (or, for the authorization endpoint with a hostile state, succeed) and
// leaves judging to the response monitors: well-formed error, matching status, no debug leak, no-store, escaping.
func (r *Run) opHostile(st Step) {
	cs := r.clientSpec(st.C)
	h := hostile[int(st.D)%len(hostile)]
	form := url.Values{}
	var res *Resp
	what := st.p("what")
	switch st.V {
	case "token":
		switch what {
		case "grant_type":
			form.Set("grant_type", h)
		case "scope":
			form.Set("grant_type", "client_credentials")
			form.Set("scope", h)
		case "code":
			form.Set("grant_type", "authorization_code")
			form.Set("code", h)
		case "refresh_token":
			form.Set("grant_type", "refresh_token")
			form.Set("refresh_token", h)
		case "audience":
			form.Set("grant_type", "client_credentials")
			form.Set("audience", h)
		case "user":
			form.Set("grant_type", "password")
			form.Set("username", h)
			form.Set("password", h)
		case "assertion":
			form.Set("grant_type", grantJWTBearer)
			form.Set("assertion", h)
		default:
			form.Set("grant_type", "client_credentials")
			form.Set(h, h)
		}
		basic := r.applyAuth(cs, st.A, form)
		if what == "client" {
			basic = &Basic{User: h, Pass: h}
		}
		res = r.call("token", func() *Resp { return r.A.Token(form, basic) })
		if res.HasTokens() && what != "" && what != "other" && what != "audience" {
			r.logf("hostile token request unexpectedly produced tokens (%s)", what)
		}
	case "introspect":
		form.Set("token", h)
		form.Set("token_type_hint", h)
		form.Set("scope", h)
		var basic *Basic
		if st.A == "" {
			basic = &Basic{User: cs.ID, Pass: cs.Secret}
		} else {
			basic = &Basic{User: h, Pass: h}
		}
		res = r.call("introspect", func() *Resp { return r.A.Introspect(form, basic, "") })
	case "revoke":
		form.Set("token", h)
		form.Set("token_type_hint", h)
		basic := r.applyAuth(cs, st.A, form)
		res = r.call("revoke", func() *Resp { return r.A.Revoke(form, basic) })
	case "device":
		form.Set("scope", h)
		basic := r.applyAuth(cs, st.A, form)
		form.Set("client_id", cs.ID)
		if what == "client" {
			form.Set("client_id", h)
		}
		res = r.call("device", func() *Resp { return r.A.DeviceAuth(form, basic) })
	case "par":
		form.Set("response_type", "code")
		form.Set("state", "state-par-abcdefgh")
		form.Set("redirect_uri", r.redirectFor(cs, ""))
		switch what {
		case "scope":
			form.Set("scope", h)
		case "redirect":
			form.Set("redirect_uri", h)
		case "rt":
			form.Set("response_type", h)
		default:
			form.Set("state", h)
		}
		basic := r.applyAuth(cs, st.A, form)
		if form.Get("client_id") == "" {
			form.Set("client_id", cs.ID)
		}
		res = r.call("par", func() *Resp { return r.A.PAR(form, basic) })
		if uri := res.Str("request_uri"); uri != "" {
			c := r.L.AddCred(&Cred{Kind: "par", Val: uri, Client: cs.ID, Issued: r.now(), Life: r.W.K.DocPARLife(), Endpoint: "par", Delivered: true, Extra: map[string]string{}})
			for k := range form {
				c.Extra[k] = form.Get(k)
			}
		}
	case "authorize":
		q := url.Values{}
		q.Set("client_id", cs.ID)
		q.Set("response_type", "code")
		q.Set("redirect_uri", r.redirectFor(cs, ""))
		q.Set("state", "state-hostile-abcdefgh")
		q.Set("scope", "photos")
		if m := st.p("mode"); m != "" {
			q.Set("response_mode", m)
		}
		switch what {
		case "state": // valid request, hostile state: reflected on success
			q.Set("state", h+"-padding-to-min-entropy")
		case "scope": // refused after redirect validation: error redirected, hint quotes the scope
			q.Set("scope", h)
		case "redirect":
			q.Set("redirect_uri", h)
		case "rt":
			q.Set("response_type", h)
		case "client":
			q.Set("client_id", h)
		case "mode":
			q.Set("response_mode", h)
		case "deny":
		}
		con := &Consent{Subject: "user-H", Deny: what == "deny"}
		res = r.call("authorize", func() *Resp { return r.A.Authorize(q, con) })
		r.checkAuthorizeResponse(cs, q, res, "", false)
		r.checkReflection(q.Get("state"), res)
		if what == "state" || what == "deny" {
			r.afterAuthorize(Step{Op: "authz", P: map[string]string{"scope": "photos", "mode": st.p("mode")}}, cs, res, q, con, "", "", "")
		}
	}
	if res != nil {
		r.logf("hostile %s/%s #%d auth=%s -> %d %s", st.V, what, int(st.D)%len(hostile), orOK(st.A), res.Status, res.ErrName)
		r.probe("hostile:" + st.V)
	}
	r.Shape = append(r.Shape, "hostile:"+st.V+":"+what)
}

// checkReflection: values reflected into the form_post page or a redirect are escaped/encoded (C20).
func (r *Run) checkReflection(state string, res *Resp) {
	if res.Crashed {
		return
	}
	if res.FormPost != nil {
		r.probe("reflection:form_post")
		// the page must not contain the raw markup of a reflected value
		for _, raw := range []string{"<script>", "</form><form", `"><`} {
			if strings.Contains(state, raw) && strings.Contains(res.Body, raw) {
				r.violate("C20", "reflected-value-unescaped", "form_post", "the form_post page contains the reflected value unescaped: %q", raw)
			}
		}
		want := state
		if !utf8.ValidString(want) {
			want = strings.ToValidUTF8(want, "�")
		}
		if got := res.FormPost.Get("state"); got != want && res.FormPost.Get("state") != "" && isVSCHAR(state) {
			r.violate("C20", "reflected-value-altered", "form_post", "state %q does not round-trip through the form_post page: %q", state, got)
		}
	}
	if res.Redirect != nil {
		r.probe("reflection:redirect")
		loc := res.Header.Get("Location")
		for _, raw := range []string{"<script>", "\r", "\n", `"`, " "} {
			if strings.Contains(state, raw) && strings.Contains(loc, raw) {
				r.violate("C20", "reflected-value-unescaped", "redirect", "the Location header contains a reflected value unencoded (%q)", raw)
			}
		}
		if got := res.Params().Get("state"); got != state && isVSCHAR(state) {
			r.violate("C20", "reflected-value-altered", "redirect", "state %q does not round-trip through the redirect: %q", state, got)
		}
	}
}

func init() {
	reg(&Profile{Name: "c20", Prop: "C20", Gen: func(t *Tape) *Plan {
		k := swarmKnobs(t)
		k.BearerKeys = bearerKeys()
		k.Debug = t.Chance(50)
		k.LegacyErrors = t.Chance(40)
		// a client that authenticates in the body (client_secret_post) and one with private_key_jwt: their credentials travel in forms
		k.Clients = append(k.Clients,
			ClientSpec{ID: "oidc-post", Secret: "secret-of-oidc-post", OIDC: true, AuthMethod: "client_secret_post", RedirectURIs: []string{"https://app-p.sim/cb"},
				GrantTypes: k.Clients[0].GrantTypes, ResponseTypes: allResponseTypes, Scopes: k.Clients[0].Scopes, Audience: k.Clients[0].Audience, ResponseModes: []string{"query", "fragment", "form_post"}},
			ClientSpec{ID: "oidc-jwt", OIDC: true, AuthMethod: "private_key_jwt", KeyName: "rsa2", AuthAlg: "RS256", RedirectURIs: []string{"https://app-j.sim/cb"},
				GrantTypes: k.Clients[0].GrantTypes, ResponseTypes: allResponseTypes, Scopes: k.Clients[0].Scopes, Audience: k.Clients[0].Audience, ResponseModes: []string{"query", "fragment", "form_post"}})
		if t.Chance(30) {
			enableCustomMode(t, &k)
		}
		nc := len(k.Clients)
		var steps []Step
		n := t.Range(10, 36)
		kinds := []string{"store-err", "store-err", "store-notfound", "store-serial", "lost-ack", "crash-before"}
		for len(steps) < n {
			var s Step
			switch t.Weighted([]int{14, 10, 6, 4, 4, 6, 6, 4, 3, 30, 4, 3}) {
			case 0:
				s = st("authz", t.Intn(nc), 0, "scope", pickScopes(t, 40, 60), "rt", t.Pick(allResponseTypes), "nonce", fmt.Sprintf("nonce-%d-abcdefgh", len(steps)))
				if strings.Contains(s.P["rt"], "id_token") {
					s.P["scope"] = "openid " + s.P["scope"]
				}
				if t.Chance(40) {
					s.P["mode"] = t.Pick([]string{"query", "fragment", "form_post", SimResponseMode})
				}
				if t.Chance(40) {
					s.P["pkce"] = "S256"
				}
			case 1:
				s = Step{Op: "redeem", C: -1, G: t.Intn(20)}
				if t.Chance(25) {
					s.P = map[string]string{"ver": t.Pick([]string{"wrong", "none", "illegal"})}
				}
			case 2:
				s = Step{Op: "refresh", C: -1, G: t.Intn(20)}
			case 3:
				s = st("password", t.Intn(nc), 0, "scope", pickScopes(t, 0, 60))
				if t.Chance(30) {
					s.V = "bad_password"
				}
			case 4:
				s = st("client_credentials", t.Intn(nc), 0, "scope", pickScopes(t, 0, 20))
			case 5:
				switch t.Intn(3) {
				case 0:
					s = st("device_authz", t.Intn(nc), 0, "scope", pickScopes(t, 40, 60))
				case 1:
					s = Step{Op: "device_decide", G: t.Intn(6), V: t.Pick([]string{"accept", "accept", "reject"})}
				default:
					s = Step{Op: "device_token", C: -1, G: t.Intn(6)}
				}
			case 6:
				if t.Chance(55) {
					s = st("par_push", t.Intn(nc), 0, "scope", pickScopes(t, 30, 50), "mode", t.Pick([]string{"", "form_post", "fragment", SimResponseMode}))
					if t.Chance(30) {
						s.P["pkce"] = "S256"
					}
				} else {
					s = Step{Op: "authz_par", C: -1, G: t.Intn(6)}
				}
			case 7:
				s = Step{Op: "jwt_bearer", C: t.Intn(nc), D: int64(t.Intn(4)), P: map[string]string{"scope": "photos"}}
			case 8:
				s = Step{Op: t.Pick([]string{"introspect", "revoke"}), C: t.Intn(2), G: t.Intn(30), A: t.Pick([]string{"", "", "bad_secret", "none"})}
			case 9:
				ep := t.Pick([]string{"token", "token", "authorize", "authorize", "authorize", "par", "device", "introspect", "revoke"})
				what := map[string][]string{
					"token":      {"grant_type", "scope", "code", "refresh_token", "audience", "user", "assertion", "client", "other"},
					"authorize":  {"state", "state", "scope", "redirect", "rt", "client", "mode", "deny"},
					"par":        {"scope", "redirect", "rt", "state"},
					"device":     {"scope", "client"},
					"introspect": {"token"},
					"revoke":     {"token"},
				}[ep]
				s = Step{Op: "hostile", C: t.Intn(nc), V: ep, D: int64(t.Intn(len(hostile))), A: t.Pick([]string{"", "", "", "bad_secret", "none"}), P: map[string]string{"what": t.Pick(what)}}
				if ep == "authorize" && t.Chance(50) {
					s.P["mode"] = t.Pick([]string{"query", "fragment", "form_post", SimResponseMode})
				}
			case 10:
				s = advance(t)
			case 11:
				s = Step{Op: "client_change", C: t.Intn(3), V: "drop_scope:photos"}
			}
			if s.Op != "advance" && s.Op != "client_change" && s.Op != "device_decide" && t.Chance(22) {
				s.F = &FaultSpec{Kind: t.Pick(kinds), At: t.Intn(10)}
			}
			steps = append(steps, s)
		}
		return &Plan{Profile: "c20", Prop: "C20", K: k, Steps: steps}
	}})
	regProp(&PropSpec{ID: "C20", Profiles: []string{"c20"}, Characteristic: []string{"hostile:", "canary-surfaced", "reflection:"}})
}
