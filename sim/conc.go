package sim

import (
	"fmt"
	"net/url"
	"sort"
	"strings"
	"testing/synctest"
)

// L1 deterministic API-level interleaving: 2-3 requests run as goroutines inside the bubble; the storage proxy parks
// each one before every storage call; the scheduler releases exactly one at a time according to the plan's picks.

type ctask struct {
	id     int
	step   Step
	resume chan struct{}
	parked bool
	done   bool
	at     string
	res    *Resp
	panic  string
	calls  int
	grant  *Grant
	cred   *Cred
	kind   string
	jti    string
}

func init() {
	extraOps["concurrent"] = (*Run).opConcurrent
}

// rawRequest builds the request of a sub-step from the ledger state at phase start.
func (r *Run) rawRequest(st Step, ct *ctask) func() *Resp {
	switch st.Op {
	case "redeem":
		code := r.L.Select(st.G, "code")
		if st.V == "latest" {
			code = r.L.SelectFromEnd(st.G, "code")
		}
		if code == nil {
			return nil
		}
		g := code.G
		cs := r.presenter(st, g.Client)
		form := url.Values{"grant_type": {"authorization_code"}, "code": {code.Val}}
		if g.Redirect != "" {
			form.Set("redirect_uri", g.Redirect)
		}
		if g.Challenge != "" {
			form.Set("code_verifier", g.Params["verifier"])
		}
		basic := r.applyAuth(cs, st.A, form)
		ct.grant, ct.cred, ct.kind = g, code, "redeem"
		return func() *Resp { return r.A.Token(form, basic) }
	case "refresh":
		rt := r.L.Select(st.G, "rt")
		if st.V == "latest" {
			rt = r.L.SelectFromEnd(st.G, "rt")
		}
		if rt == nil {
			return nil
		}
		cs := r.presenter(st, rt.G.Client)
		form := url.Values{"grant_type": {"refresh_token"}, "refresh_token": {rt.Val}}
		basic := r.applyAuth(cs, st.A, form)
		ct.grant, ct.cred, ct.kind = rt.G, rt, "refresh"
		return func() *Resp { return r.A.Token(form, basic) }
	case "revoke":
		c := r.L.Select(st.G, "at", "rt")
		if c == nil {
			return nil
		}
		cs := r.presenter(st, c.G.Client)
		form := url.Values{"token": {c.Val}}
		basic := r.applyAuth(cs, st.A, form)
		ct.grant, ct.cred, ct.kind = c.G, c, "revoke"
		return func() *Resp { return r.A.Revoke(form, basic) }
	case "introspect":
		c := r.L.Select(st.G, "at", "rt")
		if c == nil {
			return nil
		}
		caller := r.clientSpec(st.C)
		form := url.Values{"token": {c.Val}}
		ct.grant, ct.cred, ct.kind = c.G, c, "introspect"
		return func() *Resp { return r.A.Introspect(form, &Basic{User: caller.ID, Pass: caller.Secret}, "") }
	case "device_token":
		dc := r.L.Select(st.G, "dc")
		if dc == nil {
			return nil
		}
		cs := r.presenter(st, dc.G.Client)
		form := url.Values{"grant_type": {grantDevice}, "device_code": {dc.Val}}
		basic := r.applyAuth(cs, st.A, form)
		ct.grant, ct.cred, ct.kind = dc.G, dc, "device_token"
		return func() *Resp { return r.A.Token(form, basic) }
	case "authz_par":
		pc := r.L.Select(st.G, "par")
		if pc == nil {
			return nil
		}
		q := url.Values{"client_id": {pc.Client}, "request_uri": {pc.Val}}
		ct.cred, ct.kind = pc, "authz_par"
		return func() *Resp { return r.A.Authorize(q, &Consent{Subject: "user-C"}) }
	case "authz":
		cs := r.clientSpec(st.C)
		q := url.Values{"client_id": {cs.ID}, "response_type": {"code"}, "scope": {st.p("scope")}, "state": {fmt.Sprintf("cstate-%d-abcdefgh", ct.id)}, "redirect_uri": {r.redirectFor(cs, "")}}
		ct.kind = "authz"
		return func() *Resp { return r.A.Authorize(q, &Consent{Subject: "user-C"}) }
	case "client_credentials":
		cs := r.clientSpec(st.C)
		form := url.Values{"grant_type": {"client_credentials"}, "scope": {st.p("scope")}}
		basic := r.applyAuth(cs, st.A, form)
		ct.kind = "client_credentials"
		return func() *Resp { return r.A.Token(form, basic) }
	case "assertion_cc": // client_credentials authenticated with a GIVEN private_key_jwt assertion (shared between tasks)
		form := url.Values{"grant_type": {"client_credentials"}, "scope": {"photos"},
			"client_assertion_type": {"urn:ietf:params:oauth:client-assertion-type:jwt-bearer"}, "client_assertion": {st.p("assertion")}}
		ct.kind, ct.jti = "assertion_cc", st.p("jti")
		return func() *Resp { return r.A.Token(form, nil) }
	case "assertion_bearer": // JWT-bearer grant with a GIVEN assertion
		cs := r.clientSpec(st.C)
		form := url.Values{"grant_type": {grantJWTBearer}, "assertion": {st.p("assertion")}, "scope": {"photos"}}
		basic := r.applyAuth(cs, st.A, form)
		ct.kind, ct.jti = "assertion_bearer", st.p("jti")
		return func() *Resp { return r.A.Token(form, basic) }
	}
	return nil
}

func (r *Run) opConcurrent(st Step) {
	subs := st.Sub
	// shared assertions (C15): one assertion presented by several tasks
	if st.V == "same_client_assertion" || st.V == "same_bearer_assertion" {
		subs = r.sharedAssertionSubs(st)
	}
	var tasks []*ctask
	p := r.W.Store
	oldBefore := p.H.Before
	defer func() { p.H.Before = oldBefore; r.A.pendingConc = nil }()
	p.H.Before = func(ci *CallInfo) error {
		if ci.Task != nil && ci.Task.Conc != nil {
			ct := ci.Task.Conc
			ct.calls++
			ct.parked, ct.at = true, ci.Name
			<-ct.resume
			ct.parked = false
		}
		return nil
	}
	var schedule []string
	for i, s := range subs {
		ct := &ctask{id: i, step: s, resume: make(chan struct{})}
		f := r.rawRequest(s, ct)
		if f == nil {
			continue
		}
		tasks = append(tasks, ct)
		r.A.pendingConc = ct
		go func() {
			defer func() {
				if p := recover(); p != nil {
					ct.panic = fmt.Sprintf("%v at %s", p, panicSite())
				}
				ct.done = true
			}()
			ct.res = f()
		}()
		synctest.Wait() // the task runs until it parks before its first storage call (or finishes)
	}
	if len(tasks) == 0 {
		r.logf("concurrent: no runnable sub-operation")
		return
	}
	pick := 0
	decisions := 0
	for {
		var runnable []*ctask
		blocked := 0
		for _, ct := range tasks {
			if ct.done {
				continue
			}
			if ct.parked {
				runnable = append(runnable, ct)
			} else {
				blocked++
			}
		}
		if len(runnable) == 0 {
			if blocked > 0 {
				var where []string
				for _, ct := range tasks {
					if !ct.done {
						where = append(where, fmt.Sprintf("task%d(%s) after %s", ct.id, ct.kind, ct.at))
					}
				}
				r.violate("C19", "deadlock", "", "no task is runnable but %d are unfinished: %v", blocked, where)
			}
			break
		}
		k := 0
		if len(runnable) > 1 {
			if pick < len(st.S) {
				k = st.S[pick] % len(runnable)
			}
			pick++
			decisions++
			r.branching = append(r.branching, len(runnable))
		}
		ct := runnable[k]
		schedule = append(schedule, fmt.Sprintf("%d:%s", ct.id, ct.at))
		ct.resume <- struct{}{}
		synctest.Wait()
		if len(schedule) > 400 {
			r.violate("C19", "livelock", "", "more than 400 scheduling steps")
			break
		}
	}
	r.stat("concurrent-phases")
	r.schedules = append(r.schedules, strings.Join(schedule, " "))
	r.logf("concurrent %s schedule: %s", st.V, strings.Join(schedule, " "))
	r.Shape = append(r.Shape, "conc["+shortHash(strings.Join(schedule, " "))+"]")
	r.judgeConcurrent(st, tasks)
}

func (r *Run) judgeConcurrent(st Step, tasks []*ctask) {
	// panics
	for _, ct := range tasks {
		if ct.panic != "" {
			r.violate("C19", "panic", ct.kind, "a concurrent %s request panicked: %s", ct.kind, ct.panic)
		}
	}
	type handed struct {
		val, kind string
		ct        *ctask
	}
	var out []handed
	successes := map[string]int{}
	for _, ct := range tasks {
		desc := "?"
		if ct.res != nil {
			desc = outcomeOf(ct.res)
			if ct.kind == "authz" || ct.kind == "authz_par" {
				if ct.res.Params().Get("code") != "" {
					desc = "code"
				}
			}
		}
		r.logf("   task%d %s %s -> %s", ct.id, ct.kind, credName(ct.cred), desc)
		if ct.res == nil {
			continue
		}
		if ct.jti != "" && ct.res.HasTokens() {
			successes[ct.jti]++
		}
		for _, k := range []string{"access_token", "refresh_token"} {
			if v := ct.res.Str(k); v != "" {
				out = append(out, handed{v, map[string]string{"access_token": "at", "refresh_token": "rt"}[k], ct})
			}
		}
		if ct.kind == "authz" || ct.kind == "authz_par" {
			if v := ct.res.Params().Get("code"); v != "" {
				out = append(out, handed{v, "code", ct})
			}
		}
	}
	// a given jti is accepted at most once, also when identical requests arrive concurrently (C15)
	for jti, n := range successes {
		r.probe("jti-concurrent-presentations")
		if n > 1 {
			r.violate("C15", "jti-accepted-twice-concurrently", st.V, "jti %s was accepted by %d of the simultaneous presentations", jti, n)
		}
	}
	// token generation never returns the same value twice
	seen := map[string]bool{}
	for _, h := range out {
		if seen[h.val] || r.L.ByVal[h.val] != nil {
			r.violate("C19", "minted-value-repeated", h.kind, "the same %s value was handed out twice", h.kind)
		}
		seen[h.val] = true
	}
	// every token handed to a caller is either active or was invalidated by one of the concurrent requests
	invalidating := func(g *Grant, self *ctask) bool {
		for _, o := range tasks {
			if o == self || o.grant != g || g == nil {
				continue
			}
			switch o.kind {
			case "redeem", "refresh", "revoke", "device_token":
				return true
			}
		}
		return false
	}
	for _, h := range out {
		if h.kind != "at" && h.kind != "rt" {
			continue
		}
		if h.kind == "rt" && r.W.K.DisableRTValidation {
			continue
		}
		use := map[string]string{"at": "access_token", "rt": "refresh_token"}[h.kind]
		r.Fault.suspend++
		_, _, err := r.A.IntrospectDirect(h.val, tokenUse(use))
		r.Fault.suspend--
		if err != nil && !invalidating(h.ct.grant, h.ct) {
			r.violate("C19", "handed-out-token-inactive", h.ct.kind, "a %s handed out by a concurrent %s request is inactive although no concurrent request of the phase could have invalidated it", h.kind, h.ct.kind)
		}
	}
	// the ledger cannot follow several outcomes: every grant touched becomes unspecified; new credentials are recorded live
	for _, ct := range tasks {
		if ct.grant != nil {
			ct.grant.Unspec = true
		}
		if ct.cred != nil {
			ct.cred.Unspec = true
		}
	}
	for _, h := range out {
		g := h.ct.grant
		if g == nil {
			g = r.L.NewGrant(&Grant{Client: "", Origin: "concurrent", Unspec: true, Params: map[string]string{}})
		}
		r.L.AddCred(&Cred{Kind: h.kind, Val: h.val, G: g, Issued: r.now(), Endpoint: "token", Delivered: true, Unspec: true})
		r.secret(h.val, map[string]string{"at": "access_token", "rt": "refresh_token", "code": "authorization_code"}[h.kind])
	}
}

func credName(c *Cred) string {
	if c == nil {
		return "-"
	}
	return c.Name()
}

// sharedAssertionSubs: N tasks present the SAME assertion.
func (r *Run) sharedAssertionSubs(st Step) []Step {
	n := int(st.D)
	if n < 2 {
		n = 2
	}
	var subs []Step
	if st.V == "same_client_assertion" {
		var cs *ClientSpec
		ci := 0
		for i := range r.W.K.Clients {
			if r.W.K.Clients[i].AuthMethod == "private_key_jwt" {
				cs, ci = &r.W.K.Clients[i], i
			}
		}
		if cs == nil {
			return nil
		}
		a := r.clientAssertion(cs, nil)
		jti := fmt.Sprintf("jti-%s-%d", cs.ID, r.assertN)
		for i := 0; i < n; i++ {
			subs = append(subs, Step{Op: "assertion_cc", C: ci, P: map[string]string{"assertion": a, "jti": jti}})
		}
		return subs
	}
	if len(r.W.K.BearerKeys) == 0 {
		return nil
	}
	b := &r.W.K.BearerKeys[0]
	a, jti := r.bearerAssertion(b, nil)
	for i := 0; i < n; i++ {
		subs = append(subs, Step{Op: "assertion_bearer", C: 0, P: map[string]string{"assertion": a, "jti": jti}})
	}
	return subs
}

// ---------------------------------------------------------------------------
// schedule enumeration (stateless DFS over the picks of ONE concurrent step)

// NextSchedules: given the picks used and the branching factors observed, return the unexplored sibling schedules.
func nextSchedules(picks []int, branching []int) [][]int {
	var out [][]int
	full := make([]int, len(branching))
	copy(full, picks)
	for i := len(picks); i < len(branching); i++ {
		full[i] = 0
	}
	// siblings at positions >= len(picks): every alternative choice at depth i with the prefix fixed
	for i := len(picks); i < len(branching); i++ {
		for alt := 1; alt < branching[i]; alt++ {
			s := append(append([]int{}, full[:i]...), alt)
			out = append(out, s)
		}
	}
	return out
}

func sortedKeys(m map[string]int) []string {
	var ks []string
	for k := range m {
		ks = append(ks, k)
	}
	sort.Strings(ks)
	return ks
}
