package sim

import (
	"crypto/hmac"
	"crypto/sha512"
	"encoding/base64"
	"fmt"
	"strings"
)

var b64tok = base64.URLEncoding.WithPadding(base64.NoPadding)

// splitOpaque splits "ory_xx_<key>.<sig>" into prefix, key, sig.
func splitOpaque(tok string) (prefix, key, sig string, ok bool) {
	rest := tok
	if strings.HasPrefix(tok, "ory_") && len(tok) > 7 && tok[6] == '_' {
		prefix, rest = tok[:7], tok[7:]
	}
	key, sig, ok = strings.Cut(rest, ".")
	return
}

func flipBit(enc string, bit int) string {
	b, err := b64tok.DecodeString(enc)
	if err != nil || len(b) == 0 {
		return enc + "A"
	}
	i := (bit / 8) % len(b)
	b[i] ^= 1 << uint(bit%8)
	return b64tok.EncodeToString(b)
}

// mutateToken derives an attacker's variant of a credential that exists in the store.
// Every mutation changes the decoded key part, the decoded signature part, or the minting secret.
func mutateToken(tok, kind string, r *Run) string {
	if strings.Count(tok, ".") == 2 {
		return mutateJWT(tok, kind, r)
	}
	prefix, key, sig, ok := splitOpaque(tok)
	if !ok {
		return tok + "x"
	}
	n := r.Idx
	switch kind {
	case "flipkey":
		return prefix + flipBit(key, n*7+3) + "." + sig
	case "flipsig":
		return prefix + key + "." + flipBit(sig, n*5+1)
	case "trunckey":
		b, _ := b64tok.DecodeString(key)
		if len(b) > 4 {
			b = b[:len(b)-1-n%3]
		}
		return prefix + b64tok.EncodeToString(b) + "." + sig
	case "truncsig":
		b, _ := b64tok.DecodeString(sig)
		if len(b) > 4 {
			b = b[:len(b)-1-n%3]
		}
		return prefix + key + "." + b64tok.EncodeToString(b)
	case "swapkey":
		// a stored signature presented with the random part of a different live token
		for _, c := range r.L.Creds {
			if c.Val != tok && strings.Count(c.Val, ".") == 1 {
				if _, k2, _, ok := splitOpaque(c.Val); ok && k2 != key {
					return prefix + k2 + "." + sig
				}
			}
		}
		return prefix + flipBit(key, 11) + "." + sig
	case "foreignsecret":
		// minted under a secret the server never had, same construction
		kb := []byte(fmt.Sprintf("foreign-token-key-%032d", n))
		var sk [32]byte
		copy(sk[:], []byte("a-foreign-secret-nobody-configured-0000"))
		m := hmac.New(sha512.New512_256, sk[:])
		m.Write(kb)
		return prefix + b64tok.EncodeToString(kb) + "." + b64tok.EncodeToString(m.Sum(nil))
	case "foreignkey-storedsig":
		kb := []byte(fmt.Sprintf("foreign-token-key-%032d", n))
		return prefix + b64tok.EncodeToString(kb) + "." + sig
	case "emptykey":
		return prefix + "." + sig
	case "emptysig":
		return prefix + key + "."
	}
	return prefix + flipBit(key, 1) + "." + sig
}

func mutateJWT(tok, kind string, r *Run) string {
	parts := strings.Split(tok, ".")
	dec := func(s string) []byte { b, _ := base64.RawURLEncoding.DecodeString(s); return b }
	switch kind {
	case "flipkey", "payload": // edit the payload, keep header+signature (the stored signature still matches the lookup)
		p := dec(parts[1])
		s := strings.Replace(string(p), `"sub":"`, `"sub":"x`, 1)
		if s == string(p) {
			s = strings.Replace(string(p), `{`, `{"x":1,`, 1)
		}
		return parts[0] + "." + b64([]byte(s)) + "." + parts[2]
	case "flipsig":
		return parts[0] + "." + parts[1] + "." + flipBit(parts[2], r.Idx*3+2)
	case "none":
		return b64([]byte(`{"alg":"none","typ":"JWT"}`)) + "." + parts[1] + "."
	case "none-keepsig":
		return b64([]byte(`{"alg":"none","typ":"JWT"}`)) + "." + parts[1] + "." + parts[2]
	case "hs256":
		keyName := r.W.K.IDKey
		if keyName == "" {
			keyName = "rsa0"
		}
		var claims map[string]interface{}
		_ = jsonUnmarshal(dec(parts[1]), &claims)
		return SignJWT(keyName, "HS256", "", claims, nil)
	case "foreignkey", "foreignsecret":
		var claims map[string]interface{}
		_ = jsonUnmarshal(dec(parts[1]), &claims)
		return SignJWT("rsa3", "RS256", "", claims, nil)
	case "header": // edit the header, keep the signature
		return b64([]byte(`{"alg":"RS256","typ":"JWT","x":1}`)) + "." + parts[1] + "." + parts[2]
	case "dropsig", "emptysig":
		return parts[0] + "." + parts[1] + "."
	case "swapkey":
		for _, c := range r.L.Creds {
			if c.Val != tok && strings.Count(c.Val, ".") == 2 {
				o := strings.Split(c.Val, ".")
				return o[0] + "." + o[1] + "." + parts[2]
			}
		}
	}
	return parts[0] + "." + parts[1] + "." + flipBit(parts[2], 5)
}
