package sim

import (
	"fmt"
	"regexp"
	"strings"
	"testing"
)

// ---------------------------------------------------------------------------
// C18 oracle pieces

// faultedRequest: a storage failure / crash hit a token request of grant g that (fault-free) would have succeeded.
func (r *Run) faultedRequest(g *Grant, c *Cred, res *Resp) {
	r.stat("faulted-request")
	kind := ""
	if r.Fault.spec != nil {
		kind = r.Fault.spec.Kind
	}
	if g == nil {
		return
	}
	g.Faulted = true
	// serialization conflicts must surface as a retryable error, never as invalid_grant
	if kind == "store-serial" && res != nil && !res.Crashed && res.ErrName == "invalid_grant" {
		r.violate("C18", "serialization-conflict-as-invalid-grant", c.Kind, "a serialization conflict was answered with invalid_grant (the client would drop a credential that is still good)")
	}
	// (d) fail-closed: whatever was invalidated before the request stays invalid
	for _, o := range g.Creds {
		if (o.Kind != "at" && o.Kind != "rt") || o.State == Live || o.Unspec {
			continue
		}
		if o.Kind == "rt" && r.W.K.DisableRTValidation {
			continue
		}
		if active, _ := r.introspectCred(o); active {
			r.violate("C18", "invalidated-credential-honoured-again", o.Kind, "%s (%s: %v) is active again after a %s fault", o.Name(), o.State, o.Why, kind)
		}
	}
	if r.W.Store.Copy {
		// transactional store
		equal := r.W.Store.DumpTables() == r.tablesBefore
		if r.Fault.inTx && !equal {
			r.violate("C18", "transaction-not-atomic", kind, "a %s fault inside the issuing transaction left the code/token tables changed:\n%s", kind, diffDump(r.tablesBefore, r.W.Store.DumpTables()))
		}
		if equal {
			r.probe("c18-clean-rollback")
			if c.Extra == nil {
				c.Extra = map[string]string{}
			}
			c.Extra["retry_must"] = kind // (c) the credential being exchanged is still usable by its legitimate holder
			return
		}
	}
	g.Unspec = true
}

func diffDump(a, b string) string {
	am, bm := map[string]bool{}, map[string]bool{}
	for _, l := range strings.Split(a, "\n") {
		am[l] = true
	}
	for _, l := range strings.Split(b, "\n") {
		bm[l] = true
	}
	var out []string
	for _, l := range strings.Split(a, "\n") {
		if !bm[l] && l != "" {
			out = append(out, "- "+truncate(l, 160))
		}
	}
	for _, l := range strings.Split(b, "\n") {
		if !am[l] && l != "" {
			out = append(out, "+ "+truncate(l, 160))
		}
	}
	if len(out) > 8 {
		out = out[:8]
	}
	return strings.Join(out, "\n")
}

var txGrammar = regexp.MustCompile(`^(BEGIN:ERR|BEGIN( OP)*( COMMIT| COMMIT:ERR ROLLBACK(:ERR)?| ROLLBACK(:ERR)?))?$`)

// checkTxTrace (b): begin is matched by exactly one commit or rollback and never by a commit after a failed write.
func (r *Run) checkTxTrace(endpoint string) {
	p := r.W.Store
	if !p.Copy || len(p.TxTrace) == 0 {
		if p.TxOpen() {
			r.violate("C18", "transaction-left-open", endpoint, "the request ended with an open transaction")
			p.AbortOpenTx()
		}
		return
	}
	var toks []string
	failedOp := false
	for _, e := range p.TxTrace {
		switch {
		case strings.HasPrefix(e, "BEGIN"), strings.HasPrefix(e, "COMMIT"), strings.HasPrefix(e, "ROLLBACK"):
			if e == "COMMIT" && failedOp {
				r.violate("C18", "commit-after-failed-write", endpoint, "transaction trace %v: commit after a failed operation", p.TxTrace)
			}
			toks = append(toks, e)
		case strings.HasPrefix(e, "BeginTX") || strings.HasPrefix(e, "Commit") || strings.HasPrefix(e, "Rollback"):
			// the proxy's own call records for the tx methods; the BEGIN/COMMIT/ROLLBACK markers carry the meaning
		default:
			if strings.HasSuffix(e, ":ERR") {
				failedOp = true // sentinel answers (:NF, :INACTIVE) are not failed writes
			}
			toks = append(toks, "OP")
		}
	}
	// several transactions in one request (refresh reuse handling + ...) are allowed: split at BEGIN
	joined := strings.Join(toks, " ")
	for _, seg := range strings.Split(strings.ReplaceAll(joined, " BEGIN", "\nBEGIN"), "\n") {
		if !txGrammar.MatchString(seg) {
			r.violate("C18", "transaction-bracketing", endpoint, "transaction trace %v does not match BEGIN (op)* (COMMIT | COMMIT✗ ROLLBACK | ROLLBACK)", p.TxTrace)
		}
	}
	if p.TxOpen() {
		r.violate("C18", "transaction-left-open", endpoint, "the request ended with an open transaction (trace %v)", p.TxTrace)
		p.AbortOpenTx()
	}
	r.probe("c18-tx-trace-checked")
}

// ---------------------------------------------------------------------------
// Enumeration: every flow x every storage-call index x every error kind (single faults, complete), per store variant.

type c18Flow struct {
	Name   string
	Stores []string
	Setup  []Step
	Target Step
	After  []Step // retry by the legitimate holder, then a replay
	Knobs  func(k *Knobs)
}

func c18Flows() []c18Flow {
	sc := "openid offline photos"
	return []c18Flow{
		{Name: "code", Stores: []string{"plain", "tx"}, Setup: []Step{st("authz", 0, 0, "scope", sc, "pkce", "S256")},
			Target: Step{Op: "redeem", C: -1, G: 0}, After: []Step{{Op: "redeem", C: -1, G: 0}, {Op: "redeem", C: -1, G: 0}, {Op: "refresh", C: -1, G: 0}}},
		{Name: "code-replay", Stores: []string{"plain", "tx"}, Setup: []Step{st("authz", 0, 0, "scope", sc), {Op: "redeem", C: -1, G: 0}},
			Target: Step{Op: "redeem", C: -1, G: 0}, After: []Step{{Op: "redeem", C: -1, G: 0}, {Op: "refresh", C: -1, G: 0}}},
		{Name: "refresh", Stores: []string{"plain", "tx"}, Setup: []Step{st("authz", 0, 0, "scope", sc), {Op: "redeem", C: -1, G: 0}},
			Target: Step{Op: "refresh", C: -1, G: 0}, After: []Step{{Op: "refresh", C: -1, G: 0}, {Op: "refresh", C: -1, G: 0}, {Op: "refresh", C: -1, G: 0, V: "latest"}}},
		{Name: "refresh-reuse", Stores: []string{"plain", "tx"}, Setup: []Step{st("authz", 0, 0, "scope", sc), {Op: "redeem", C: -1, G: 0}, {Op: "refresh", C: -1, G: 0}},
			Target: Step{Op: "refresh", C: -1, G: 0}, After: []Step{{Op: "refresh", C: -1, G: 0}, {Op: "refresh", C: -1, G: 0, V: "latest"}}},
		{Name: "device", Stores: []string{"plain", "tx", "txc"}, Setup: []Step{st("device_authz", 0, 0, "scope", sc), {Op: "device_decide", G: 0, V: "accept"}},
			Target: Step{Op: "device_token", C: -1, G: 0}, After: []Step{{Op: "device_token", C: -1, G: 0}, {Op: "device_token", C: -1, G: 0}}},
		{Name: "implicit", Stores: []string{"plain", "tx"}, Target: st("authz", 0, 0, "rt", "id_token token", "scope", "openid photos", "nonce", "nonce-c18-abcdefgh"), After: []Step{{Op: "introspect", G: 0}}},
		{Name: "hybrid", Stores: []string{"plain", "tx"}, Target: st("authz", 0, 0, "rt", "code id_token token", "scope", sc, "nonce", "nonce-c18-abcdefgh"), After: []Step{{Op: "redeem", C: -1, G: 0}}},
		{Name: "authorize-code", Stores: []string{"plain", "tx"}, Target: st("authz", 0, 0, "scope", sc, "pkce", "S256"), After: []Step{{Op: "redeem", C: -1, G: 0}}},
		{Name: "client-credentials", Stores: []string{"plain", "tx"}, Target: st("client_credentials", 0, 0, "scope", "photos")},
		{Name: "password", Stores: []string{"plain", "tx"}, Target: st("password", 0, 0, "scope", "offline photos"), After: []Step{{Op: "refresh", C: -1, G: 0}}},
		{Name: "jwt-bearer", Stores: []string{"plain", "tx"}, Target: Step{Op: "jwt_bearer", C: 0, P: map[string]string{"scope": "photos"}}},
		{Name: "revocation-at", Stores: []string{"plain", "tx"}, Setup: []Step{st("authz", 0, 0, "scope", sc), {Op: "redeem", C: -1, G: 0}},
			Target: Step{Op: "revoke", C: -1, G: 0}, After: []Step{{Op: "revoke", C: -1, G: 0}, {Op: "refresh", C: -1, G: 0}}},
		{Name: "revocation-rt", Stores: []string{"plain", "tx"}, Setup: []Step{st("authz", 0, 0, "scope", sc), {Op: "redeem", C: -1, G: 0}},
			Target: Step{Op: "revoke", C: -1, G: 1, V: "hint_right"}, After: []Step{{Op: "refresh", C: -1, G: 0}}},
		{Name: "par-push", Stores: []string{"plain", "tx"}, Target: st("par_push", 0, 0, "scope", sc), After: []Step{{Op: "authz_par", C: -1, G: 0}}},
		{Name: "par-use", Stores: []string{"plain", "tx"}, Setup: []Step{st("par_push", 0, 0, "scope", sc)},
			Target: Step{Op: "authz_par", C: -1, G: 0}, After: []Step{{Op: "authz_par", C: -1, G: 0}, {Op: "redeem", C: -1, G: 0}}},
	}
}

var c18Kinds = []string{"store-err", "store-notfound", "store-inactive", "store-serial", "lost-ack", "crash-before", "crash-after"}
var c18TxKinds = []string{"begin-fail", "commit-fail", "rollback-fail"}

func c18Knobs(store string, jwt bool) Knobs {
	k := Knobs{Clients: baseClients(nil), Users: map[string]string{"peter": "peters-password"}, Store: store, BearerKeys: bearerKeys(), JWTAccess: jwt}
	return k
}

func c18Plan(f c18Flow, store string, jwt bool, fault, fault2 *FaultSpec) *Plan {
	k := c18Knobs(store, jwt)
	if f.Knobs != nil {
		f.Knobs(&k)
	}
	var steps []Step
	steps = append(steps, f.Setup...)
	tgt := f.Target
	tgt.F, tgt.F2 = fault, fault2
	steps = append(steps, tgt)
	steps = append(steps, f.After...)
	return &Plan{Profile: "c18enum", Prop: "C18", K: k, Steps: steps, Seed: 18, Note: f.Name}
}

// c18Trace runs the flow fault-free and returns the storage-call names of the target request.
func c18Trace(t *testing.T, f c18Flow, store string, jwt bool) ([]string, *Result) {
	plan := c18Plan(f, store, jwt, &FaultSpec{Kind: "trace-only", At: -1}, nil)
	plan.Steps = plan.Steps[:len(f.Setup)+1]
	res := Execute(t, plan)
	var names []string
	for _, l := range res.Log {
		if i := strings.Index(l, "TRACE "); i >= 0 {
			names = strings.Fields(l[i+6:])
		}
	}
	return names, res
}

func enumerateC18(t *testing.T, job *Job, out *WorkerOut, found map[string]*Found) map[string]interface{} {
	states, shapes := map[string]bool{}, map[string]bool{}
	spec := PropSpecs["C18"]
	total, idx, pairs := 0, 0, 0
	cells := map[string]int{}
	for _, f := range c18Flows() {
		for _, store := range f.Stores {
			for _, jwt := range []bool{false, true} {
				if jwt && (f.Name != "code" && f.Name != "refresh") {
					continue
				}
				names, res := c18Trace(t, f, store, jwt)
				if len(res.Sanity) > 0 || res.Panic != "" || len(names) == 0 {
					out.Sanity = append(out.Sanity, fmt.Sprintf("c18 flow %s/%s: fault-free run did not complete (%v %s)", f.Name, store, res.Sanity, res.Panic))
					out.SanityRuns++
					continue
				}
				var cases []*FaultSpec
				for i, n := range names {
					for _, k := range c18Kinds {
						cases = append(cases, &FaultSpec{Kind: k, At: i, Call: n})
					}
				}
				if store != "plain" {
					for _, k := range c18TxKinds {
						cases = append(cases, &FaultSpec{Kind: k})
					}
				}
				for _, fs := range cases {
					idx++
					if idx%job.Workers != job.Worker {
						continue
					}
					total++
					cells[f.Name+"/"+store]++
					plan := c18Plan(f, store, jwt, fs, nil)
					r := Execute(t, plan)
					absorb(t, job, out, found, states, shapes, spec, plan, r)
				}
				// thorough tier: PAIRS of faults enumerated completely for the three transactional flows
				if job.Tier == "thorough" && store != "plain" && !jwt && (f.Name == "code" || f.Name == "refresh" || f.Name == "device") {
					pk := []string{"store-err", "store-serial", "lost-ack", "crash-before"}
					for i := range names {
						for j := i + 1; j < len(names); j++ {
							for _, k1 := range pk {
								for _, k2 := range append(append([]string{}, pk...), "rollback-fail", "commit-fail") {
									idx++
									if idx%job.Workers != job.Worker {
										continue
									}
									pairs++
									plan := c18Plan(f, store, jwt, &FaultSpec{Kind: k1, At: i, Call: names[i]}, &FaultSpec{Kind: k2, At: j, Call: names[j]})
									r := Execute(t, plan)
									absorb(t, job, out, found, states, shapes, spec, plan, r)
								}
							}
						}
					}
				}
			}
		}
	}
	for s := range shapes {
		out.Shapes = append(out.Shapes, "enum:"+s)
	}
	return map[string]interface{}{"evaluations": 0, "distinct": 0, "single_fault_cases_this_worker": total, "fault_pair_cases_this_worker": pairs, "cells": cells, "exhaustive_single_faults": true}
}

func init() {
	regProp(&PropSpec{ID: "C18", Profiles: []string{"c18pairs"}, Characteristic: []string{"c18-"}, Enumerate: enumerateC18})
	// random phase: pairs of faults on the transactional flows + random histories with single faults
	reg(&Profile{Name: "c18pairs", Prop: "C18", Gen: func(t *Tape) *Plan {
		flows := c18Flows()
		f := flows[t.Intn(len(flows))]
		store := f.Stores[t.Intn(len(f.Stores))]
		kinds := append(append([]string{}, c18Kinds...), c18TxKinds...)
		f1 := &FaultSpec{Kind: t.Pick(kinds), At: t.Intn(14)}
		var f2 *FaultSpec
		if t.Chance(70) {
			f2 = &FaultSpec{Kind: t.Pick(kinds), At: t.Intn(14)}
		}
		p := c18Plan(f, store, t.Chance(30), f1, f2)
		p.Profile = "c18pairs"
		// longer tail: more retries / replays and unrelated traffic
		for i := 0; i < t.Intn(4); i++ {
			p.Steps = append(p.Steps, p.Steps[len(f.Setup)])
			p.Steps[len(p.Steps)-1].F, p.Steps[len(p.Steps)-1].F2 = nil, nil
		}
		return p
	}})
}
