package sim

import (
	"context"
	"fmt"
	"net/http/httptest"
	"net/url"
	"os"
	"reflect"
	"sort"
	"sync"
	"testing"
	"time"

	"github.com/ory/fosite"
	"github.com/ory/fosite/compose"
	"github.com/ory/fosite/handler/openid"
	"github.com/ory/fosite/storage"
)

// L3: data-race probes. NOT simulation: a controlled schedule masks races (every scheduler the race detector can see
// creates happens-before edges), so for this one clause operation pairs are released together behind a barrier in a
// -race build. The Go race detector decides by happens-before, not by physical overlap.

// raceSession: the session objects the application hands to the provider. The library's OWN session type is probed too
// (its Clone decides whether two requests working on one stored record share maps).
var raceSession = func(sub string) fosite.Session { return NewSimSession(sub) }

func libSession(sub string) fosite.Session {
	s := openid.NewDefaultSession()
	s.Subject, s.Username = sub, sub
	s.Claims.Subject = sub
	return s
}

func raceReq(id string) *fosite.Request {
	r := fosite.NewRequest()
	r.RequestedAt = time.Date(2000, 1, 1, 0, 0, 0, 0, time.UTC)
	r.ID = id
	r.Client = &fosite.DefaultClient{ID: "c"}
	r.Session = raceSession("u")
	r.Form = url.Values{"k": {"v"}}
	r.GrantedScope = fosite.Arguments{"a"}
	return r
}

func racePrefix() *storage.MemoryStore {
	m := storage.NewMemoryStore()
	ctx := context.Background()
	m.Clients["c"] = &fosite.DefaultClientWithCustomTokenLifespans{DefaultClient: &fosite.DefaultClient{ID: "c"}}
	m.Users["u"] = storage.MemoryUserRelation{Username: "u", Password: "p"}
	_ = m.CreateAuthorizeCodeSession(ctx, "k1", raceReq("rid1"))
	_ = m.CreatePKCERequestSession(ctx, "k1", raceReq("rid1"))
	_ = m.CreateOpenIDConnectSession(ctx, "k1", raceReq("rid1"))
	_ = m.CreateAccessTokenSession(ctx, "k1", raceReq("rid1"))
	_ = m.CreateRefreshTokenSession(ctx, "k1", "k1", raceReq("rid1"))
	_ = m.CreatePARSession(ctx, "k1", &fosite.AuthorizeRequest{Request: *raceReq("rid1")})
	_ = m.CreateDeviceAuthSession(ctx, "k1", "k1u", &fosite.DeviceRequest{Request: *raceReq("rid1")})
	_ = m.SetClientAssertionJWT(ctx, "k1", time.Now().Add(time.Hour))
	return m
}

var (
	tCtx     = reflect.TypeOf((*context.Context)(nil)).Elem()
	tReq     = reflect.TypeOf((*fosite.Requester)(nil)).Elem()
	tSess    = reflect.TypeOf((*fosite.Session)(nil)).Elem()
	tDev     = reflect.TypeOf((*fosite.DeviceRequester)(nil)).Elem()
	tAuthz   = reflect.TypeOf((*fosite.AuthorizeRequester)(nil)).Elem()
	tTime    = reflect.TypeOf(time.Time{})
	tLifespn = reflect.TypeOf((*fosite.ClientLifespanConfig)(nil))
)

// raceArgs builds arguments on overlapping keys for one store method.
func raceArgs(m reflect.Method, recv reflect.Value, g int) []reflect.Value {
	args := []reflect.Value{recv}
	ft := m.Type
	for i := 1; i < ft.NumIn(); i++ {
		in := ft.In(i)
		switch {
		case in == tCtx:
			args = append(args, reflect.ValueOf(context.Background()))
		case in.Kind() == reflect.String:
			v := "k1"
			switch m.Name {
			case "RevokeAccessToken", "RevokeRefreshToken":
				v = "rid1"
			case "RotateRefreshToken":
				if i == 2 {
					v = "rid1"
				}
			case "GetClient", "SetTokenLifespans":
				v = "c"
			case "Authenticate":
				v = map[int]string{2: "u", 3: "p"}[i]
			}
			args = append(args, reflect.ValueOf(v))
		case in == tReq:
			args = append(args, reflect.ValueOf(fosite.Requester(raceReq("rid1"))))
		case in == tDev:
			args = append(args, reflect.ValueOf(fosite.DeviceRequester(&fosite.DeviceRequest{Request: *raceReq("rid1")})))
		case in == tAuthz:
			args = append(args, reflect.ValueOf(fosite.AuthorizeRequester(&fosite.AuthorizeRequest{Request: *raceReq("rid1")})))
		case in == tSess:
			args = append(args, reflect.Zero(tSess))
		case in == tTime:
			args = append(args, reflect.ValueOf(time.Now().Add(time.Hour)))
		case in == tLifespn:
			args = append(args, reflect.ValueOf(&fosite.ClientLifespanConfig{}))
		default:
			args = append(args, reflect.Zero(in))
		}
	}
	return args
}

func storeMethods() []reflect.Method {
	t := reflect.TypeOf(&storage.MemoryStore{})
	var ms []reflect.Method
	for i := 0; i < t.NumMethod(); i++ {
		ms = append(ms, t.Method(i))
	}
	sort.Slice(ms, func(i, j int) bool { return ms[i].Name < ms[j].Name })
	return ms
}

// TestRaceStorePairs: all unordered pairs (incl. self-pairs) of the reference store's exported methods on overlapping keys.
func TestRaceStorePairs(t *testing.T) {
	if os.Getenv("SIM_RACE") == "" {
		t.Skip("SIM_RACE not set")
	}
	ms := storeMethods()
	fmt.Printf("RACE-PROBE store methods=%d pairs=%d\n", len(ms), len(ms)*(len(ms)+1)/2)
	for i := 0; i < len(ms); i++ {
		for j := i; j < len(ms); j++ {
			a, b := ms[i], ms[j]
			t.Run(a.Name+"+"+b.Name, func(t *testing.T) {
				for rep := 0; rep < 3; rep++ {
					m := racePrefix()
					recv := reflect.ValueOf(m)
					var start, done sync.WaitGroup
					start.Add(1)
					for g, meth := range []reflect.Method{a, b} {
						done.Add(1)
						go func(g int, meth reflect.Method) {
							defer done.Done()
							defer func() { _ = recover() }()
							start.Wait()
							for k := 0; k < 30; k++ {
								meth.Func.Call(raceArgs(meth, recv, g))
							}
						}(g, meth)
					}
					start.Done()
					if !waitOrDeadlock(t, &done, a.Name+"+"+b.Name) {
						return
					}
				}
			})
		}
	}
}

// Race-free glue for the provider probes: no shared harness state at all (the harness' App/Proxy keep counters and
// logs that are only safe under the simulator's one-at-a-time scheduling).
type raceApp struct {
	p fosite.OAuth2Provider
}

func (a raceApp) token(form url.Values, basic *Basic) *Resp {
	ctx := fosite.NewContext()
	rec := httptest.NewRecorder()
	r := newHTTPRequest("POST", "/token", nil, form, basic, "")
	ar, err := a.p.NewAccessRequest(ctx, r, raceSession("u"))
	if err != nil {
		a.p.WriteAccessError(ctx, rec, ar, err)
		return finish(rec, err, nil)
	}
	for _, s := range ar.GetRequestedScopes() {
		ar.GrantScope(s)
	}
	resp, err := a.p.NewAccessResponse(ctx, ar)
	if err != nil {
		a.p.WriteAccessError(ctx, rec, ar, err)
		return finish(rec, err, nil)
	}
	a.p.WriteAccessResponse(ctx, rec, ar, resp)
	return finish(rec, nil, nil)
}

func (a raceApp) authorize(q url.Values) *Resp {
	ctx := fosite.NewContext()
	rec := httptest.NewRecorder()
	r := newHTTPRequest("GET", "/auth", q, nil, nil, "")
	ar, err := a.p.NewAuthorizeRequest(ctx, r)
	if err != nil {
		a.p.WriteAuthorizeError(ctx, rec, ar, err)
		return finish(rec, err, nil)
	}
	for _, s := range ar.GetRequestedScopes() {
		ar.GrantScope(s)
	}
	resp, err := a.p.NewAuthorizeResponse(ctx, ar, raceSession("u"))
	if err != nil {
		a.p.WriteAuthorizeError(ctx, rec, ar, err)
		return finish(rec, err, nil)
	}
	a.p.WriteAuthorizeResponse(ctx, rec, ar, resp)
	return finish(rec, nil, nil)
}

func (a raceApp) introspect(form url.Values, basic *Basic) {
	ctx := fosite.NewContext()
	rec := httptest.NewRecorder()
	r := newHTTPRequest("POST", "/introspect", nil, form, basic, "")
	ir, err := a.p.NewIntrospectionRequest(ctx, r, raceSession(""))
	if err != nil {
		a.p.WriteIntrospectionError(ctx, rec, err)
		return
	}
	a.p.WriteIntrospectionResponse(ctx, rec, ir)
}

func (a raceApp) revoke(form url.Values, basic *Basic) {
	ctx := fosite.NewContext()
	rec := httptest.NewRecorder()
	r := newHTTPRequest("POST", "/revoke", nil, form, basic, "")
	a.p.WriteRevocationResponse(ctx, rec, a.p.NewRevocationRequest(ctx, r))
}

func (a raceApp) device(form url.Values, basic *Basic) {
	ctx := fosite.NewContext()
	rec := httptest.NewRecorder()
	r := newHTTPRequest("POST", "/device/auth", nil, form, basic, "")
	dr, err := a.p.NewDeviceRequest(ctx, r)
	if err != nil {
		a.p.WriteAccessError(ctx, rec, dr, err)
		return
	}
	resp, err := a.p.NewDeviceResponse(ctx, dr, raceSession(""))
	if err != nil {
		a.p.WriteAccessError(ctx, rec, dr, err)
		return
	}
	a.p.WriteDeviceResponse(ctx, rec, dr, resp)
}

func (a raceApp) deviceResp(form url.Values, basic *Basic) string {
	ctx := fosite.NewContext()
	r := newHTTPRequest("POST", "/device/auth", nil, form, basic, "")
	dr, err := a.p.NewDeviceRequest(ctx, r)
	if err != nil {
		return ""
	}
	resp, err := a.p.NewDeviceResponse(ctx, dr, raceSession(""))
	if err != nil {
		return ""
	}
	return resp.GetDeviceCode()
}

func (a raceApp) par(form url.Values, basic *Basic) {
	ctx := fosite.NewContext()
	rec := httptest.NewRecorder()
	r := newHTTPRequest("POST", "/par", nil, form, basic, "")
	ar, err := a.p.NewPushedAuthorizeRequest(ctx, r)
	if err != nil {
		a.p.WritePushedAuthorizeError(ctx, rec, ar, err)
		return
	}
	resp, err := a.p.NewPushedAuthorizeResponse(ctx, ar, raceSession(""))
	if err != nil {
		a.p.WritePushedAuthorizeError(ctx, rec, ar, err)
		return
	}
	a.p.WritePushedAuthorizeResponse(ctx, rec, ar, resp)
}

// TestRaceProviderPairs: pairs of API operations on one provider + one reference store, with a default-constructed
// Config (lazily defaulted getters) and with a fully populated one.
func TestRaceProviderPairs(t *testing.T) {
	if os.Getenv("SIM_RACE") == "" {
		t.Skip("SIM_RACE not set")
	}
	loadKeys()
	HashSecret("s0")
	HashSecret("s1")
	// the last two are ERROR paths: requests refused with the library's package-level sentinel errors, which every request shares
	ops := []string{"client_credentials", "authorize", "redeem", "refresh", "introspect", "revoke", "password", "device_authz", "par_push", "device_token", "device_pending", "refused"}
	fmt.Printf("RACE-PROBE provider ops=%d pairs=%d configs=4\n", len(ops), len(ops)*(len(ops)+1)/2)
	defer func() { raceSession = func(sub string) fosite.Session { return NewSimSession(sub) } }()
	for _, cfgKind := range []string{"default-constructed", "fully-populated", "shared-credentials", "library-session"} {
		raceSession = func(sub string) fosite.Session { return NewSimSession(sub) }
		if cfgKind == "library-session" {
			raceSession = libSession // openid.DefaultSession, both goroutines on the same credentials
		}
		for i := 0; i < len(ops); i++ {
			for j := i; j < len(ops); j++ {
				a, b := ops[i], ops[j]
				t.Run(cfgKind+"/"+a+"+"+b, func(t *testing.T) {
					for rep := 0; rep < raceReps(); rep++ {
						k := &Knobs{Clients: baseClients(nil), Users: map[string]string{"peter": "peters-password"}, Store: "plain"}
						k.Clients[0].Secret, k.Clients[1].Secret = "s0", "s1"
						cfg := k.BuildConfig(NewSimNet())
						if cfgKind == "default-constructed" {
							// what a user gets from &fosite.Config{GlobalSecret: ...}: strategies and hasher are defaulted lazily by the getters
							cfg.ScopeStrategy, cfg.AudienceMatchingStrategy, cfg.ClientSecretsHasher = nil, nil, nil
						} else {
							cfg.ScopeStrategy, cfg.AudienceMatchingStrategy = fosite.WildcardScopeStrategy, fosite.DefaultAudienceMatchingStrategy
						}
						mem := storage.NewMemoryStore()
						for i := range k.Clients {
							mem.Clients[k.Clients[i].ID] = BuildClient(k.Clients[i])
						}
						mem.Users["peter"] = storage.MemoryUserRelation{Username: "peter", Password: "peters-password"}
						app := raceApp{compose.ComposeAllEnabled(cfg, mem, Key("rsa0"))}
						type creds struct{ code, rt, at, dc string }
						var cr [2]creds
						for g := 0; g < 2; g++ {
							cs := &k.Clients[g]
							q := url.Values{"client_id": {cs.ID}, "response_type": {"code"}, "scope": {"offline photos"}, "state": {"state-abcdefgh"}, "redirect_uri": {cs.RedirectURIs[0]}}
							r1 := app.authorize(q)
							r2 := app.authorize(q)
							tok := app.token(url.Values{"grant_type": {"authorization_code"}, "code": {r2.Params().Get("code")}, "redirect_uri": {cs.RedirectURIs[0]}}, &Basic{User: cs.ID, Pass: cs.Secret})
							cr[g] = creds{code: r1.Params().Get("code"), rt: tok.Str("refresh_token"), at: tok.Str("access_token")}
							// an approved device authorization (the verification page's work is done directly on the store)
							for _, dr := range mem.DeviceAuths {
								dr.SetUserCodeState(fosite.UserCodeAccepted)
							}
							before := len(mem.DeviceAuths)
							dres := app.deviceResp(url.Values{"client_id": {cs.ID}, "scope": {"offline photos"}}, &Basic{User: cs.ID, Pass: cs.Secret})
							if len(mem.DeviceAuths) > before {
								for _, dr := range mem.DeviceAuths {
									dr.SetUserCodeState(fosite.UserCodeAccepted)
									dr.GrantScope("offline")
									if ss, ok := dr.GetSession().(*SimSession); ok {
										ss.SetSubject("u")
									}
									if ls, ok := dr.GetSession().(*openid.DefaultSession); ok {
										ls.Subject = "u"
										ls.Claims.Subject = "u"
									}
								}
							}
							cr[g].dc = dres
						}
						// device codes that stay undecided: polling them is answered with the shared authorization_pending error
						var pending [2]string
						for g := 0; g < 2; g++ {
							cs := &k.Clients[g]
							pending[g] = app.deviceResp(url.Values{"client_id": {cs.ID}, "scope": {"photos"}}, &Basic{User: cs.ID, Pass: cs.Secret})
						}
						if cfgKind == "default-constructed" {
							cfg.ScopeStrategy, cfg.AudienceMatchingStrategy, cfg.ClientSecretsHasher = nil, nil, nil // the prefix defaulted them; a fresh process starts with nil
						}
						run := func(g int, op string) {
							if cfgKind == "shared-credentials" || cfgKind == "library-session" {
								g = 0 // both goroutines act as the same client on the SAME code / refresh token / access token
							}
							cs := &k.Clients[g]
							basic := &Basic{User: cs.ID, Pass: cs.Secret}
							switch op {
							case "client_credentials":
								app.token(url.Values{"grant_type": {"client_credentials"}, "scope": {"photos"}}, basic)
							case "authorize":
								app.authorize(url.Values{"client_id": {cs.ID}, "response_type": {"code"}, "scope": {"photos"}, "state": {"state-abcdefgh"}, "redirect_uri": {cs.RedirectURIs[0]}})
							case "redeem":
								app.token(url.Values{"grant_type": {"authorization_code"}, "code": {cr[g].code}, "redirect_uri": {cs.RedirectURIs[0]}}, basic)
							case "refresh":
								app.token(url.Values{"grant_type": {"refresh_token"}, "refresh_token": {cr[g].rt}}, basic)
							case "introspect":
								app.introspect(url.Values{"token": {cr[1-g].at}}, basic)
							case "revoke":
								app.revoke(url.Values{"token": {cr[g].at}}, basic)
							case "password":
								app.token(url.Values{"grant_type": {"password"}, "username": {"peter"}, "password": {"peters-password"}, "scope": {"offline"}}, basic)
							case "device_authz":
								app.device(url.Values{"client_id": {cs.ID}, "scope": {"photos"}}, basic)
							case "device_token":
								app.token(url.Values{"grant_type": {grantDevice}, "device_code": {cr[g].dc}}, basic)
							case "device_pending":
								app.token(url.Values{"grant_type": {grantDevice}, "device_code": {pending[g]}}, basic)
							case "refused":
								app.token(url.Values{"grant_type": {"refresh_token"}, "refresh_token": {"not-a-token"}}, basic)
								app.token(url.Values{"grant_type": {"unknown_grant"}}, basic)
								app.authorize(url.Values{"client_id": {cs.ID}, "response_type": {"bogus"}, "state": {"state-abcdefgh"}, "redirect_uri": {cs.RedirectURIs[0]}})
							case "par_push":
								app.par(url.Values{"client_id": {cs.ID}, "response_type": {"code"}, "state": {"state-abcdefgh"}, "redirect_uri": {cs.RedirectURIs[0]}}, basic)
							}
						}
						var start, done sync.WaitGroup
						start.Add(1)
						for g, op := range []string{a, b} {
							done.Add(1)
							go func(g int, op string) {
								defer done.Done()
								defer func() {
									if p := recover(); p != nil {
										t.Errorf("PANIC in %s: %v", op, p)
									}
								}()
								start.Wait()
								run(g, op)
							}(g, op)
						}
						start.Done()
						done.Wait()
					}
				})
			}
		}
	}
}

// waitOrDeadlock waits for the goroutines of one probe; a probe that does not finish is reported (and abandoned)
// instead of hanging the whole check.
func waitOrDeadlock(t *testing.T, done *sync.WaitGroup, what string) bool {
	ch := make(chan struct{})
	go func() { done.Wait(); close(ch) }()
	select {
	case <-ch:
		return true
	case <-time.After(20 * time.Second):
		t.Errorf("DEADLOCK-SUSPECT %s: the two operations did not finish within 20 s", what)
		fmt.Printf("DEADLOCK-SUSPECT %s\n", what)
		return false
	}
}

func raceReps() int {
	if os.Getenv("SIM_RACE_REPS") != "" {
		var n int
		fmt.Sscanf(os.Getenv("SIM_RACE_REPS"), "%d", &n)
		if n > 0 {
			return n
		}
	}
	return 3
}
