package sim

import (
	"errors"
	"fmt"
	"strings"

	"github.com/ory/fosite"
)

// faultState: the faults armed for the current step (one, or a pair); probes and other harness-internal
// calls are exempt (suspend>0).
type faultState struct {
	specs   []*FaultSpec
	done    []bool
	spec    *FaultSpec // the (first) fault that fired in this step, nil if none
	call    string     // the storage call it fired at
	fired   bool
	inTx    bool // a fault fired while a transaction was open (or was a commit/rollback failure)
	suspend int
	task    int // the request (task id) the faults are bound to: the first request issued after arming
	canary  string
	n       int
}

func (f *faultState) arm(ss ...*FaultSpec) {
	f.specs, f.done = nil, nil
	for _, s := range ss {
		if s != nil && !strings.HasPrefix(s.Kind, "rand-") && !strings.HasPrefix(s.Kind, "net-") {
			f.specs = append(f.specs, s)
			f.done = append(f.done, false)
		}
	}
	f.fired, f.inTx, f.spec, f.call = false, false, nil, ""
	f.task = 0
	f.n++
	// hostile bytes: quotes, control characters, HTML, invalid UTF-8
	f.canary = fmt.Sprintf("CANARY%04d\"'<script>\x01\x7f\xff\xfe&amp;{}", f.n)
}

func (f *faultState) desc() string {
	if f.spec == nil {
		return "none"
	}
	return fmt.Sprintf("%s@%d:%s", f.spec.Kind, f.spec.At, f.call)
}

// mustRefuse: does the fault that fired oblige the request to be refused? A sentinel answer ("not found" /
// "inactive") injected at a READ is indistinguishable from the record being absent / inactive: the request is then
// judged as if that were the state, not as an unexpected failure.
func (f *faultState) mustRefuse() bool {
	if !f.fired || f.spec == nil {
		return false
	}
	if (f.spec.Kind == "store-notfound" || f.spec.Kind == "store-inactive") && (strings.HasPrefix(f.call, "Get") || f.call == "IsJWTUsed" || f.call == "ClientAssertionJWTValid" || f.call == "Authenticate") {
		return false
	}
	return true
}

func (f *faultState) disarm(r *Run) {
	for i, s := range f.specs {
		if f.done[i] {
			r.stat("fault:" + s.Kind)
		}
	}
	f.specs, f.done = nil, nil
	f.fired = false
}

// match returns the armed spec (of one of the given kinds) that applies to this call, if any.
func (f *faultState) match(ci *CallInfo, after bool) *FaultSpec {
	if len(f.specs) == 0 || f.suspend > 0 || ci.Task == nil {
		return nil
	}
	if f.task == 0 {
		f.task = ci.Task.ID
	}
	if ci.Task.ID != f.task {
		return nil
	}
	for i, s := range f.specs {
		if f.done[i] {
			continue
		}
		isAfter := s.Kind == "lost-ack" || s.Kind == "crash-after"
		if isAfter != after {
			continue
		}
		if s.Kind == "store-inactive" && !ci.Write && strings.HasPrefix(ci.Name, "Get") {
			continue // handled in the After hook: a contract-following store returns the record together with the sentinel
		}
		ok := false
		switch s.Kind {
		case "begin-fail":
			ok = ci.Name == "BeginTX"
		case "commit-fail":
			ok = ci.Name == "Commit"
		case "rollback-fail":
			ok = ci.Name == "Rollback"
		default:
			ok = (ci.Idx == s.At || (s.At < 0 && s.Call != "")) && (s.Call == "" || s.Call == ci.Name) // At < 0 with a name: the first call of that name
		}
		if ok {
			f.done[i] = true
			f.fired = true
			if f.spec == nil {
				f.spec = s
				f.call = ci.Name
			}
			return s
		}
	}
	return nil
}

type canaryError struct{ s string }

func (e *canaryError) Error() string { return e.s }

func (r *Run) installHooks() {
	p := r.W.Store
	f := r.Fault
	p.H.Before = func(ci *CallInfo) error {
		s := f.match(ci, false)
		if s == nil {
			return nil
		}
		if p.TxOpen() || s.Kind == "commit-fail" || s.Kind == "rollback-fail" {
			f.inTx = true
		}
		r.logf("   fault %s fired at call %d %s", s.Kind, ci.Idx, ci.Name)
		switch s.Kind {
		case "store-err", "begin-fail", "commit-fail", "rollback-fail":
			r.Canaries[f.canary] = true
			return &canaryError{f.canary}
		case "store-notfound":
			return fosite.ErrNotFound
		case "store-inactive":
			return fosite.ErrInactiveToken
		case "store-serial":
			return fosite.ErrSerializationFailure
		case "crash-before":
			panic(crashSentinel{At: ci.Name})
		}
		return nil
	}
	p.H.After = func(ci *CallInfo, err error) error {
		if len(f.specs) == 0 || f.suspend > 0 || ci.Task == nil || ci.Task.ID != f.task {
			return err
		}
		// peek without consuming when the kind does not apply to this call
		for i, s := range f.specs {
			inactiveRead := s.Kind == "store-inactive" && !ci.Write && strings.HasPrefix(ci.Name, "Get")
			if f.done[i] || (s.Kind != "lost-ack" && s.Kind != "crash-after" && !inactiveRead) {
				continue
			}
			if (ci.Idx != s.At && s.At >= 0) || (s.Call != "" && s.Call != ci.Name) || (s.At < 0 && s.Call == "") {
				continue
			}
			if s.Kind == "lost-ack" && !(err == nil && ci.Write) {
				continue
			}
			if inactiveRead {
				if err != nil {
					continue
				}
				f.done[i] = true
				f.fired = true
				if f.spec == nil {
					f.spec = s
					f.call = ci.Name
				}
				r.logf("   fault %s fired at call %d %s (record returned with the sentinel)", s.Kind, ci.Idx, ci.Name)
				return fosite.ErrInactiveToken
			}
			f.done[i] = true
			f.fired = true
			if f.spec == nil {
				f.spec = s
				f.call = ci.Name
			}
			if p.TxOpen() {
				f.inTx = true
			}
			r.logf("   fault %s fired at call %d %s", s.Kind, ci.Idx, ci.Name)
			if s.Kind == "lost-ack" {
				r.Canaries[f.canary] = true
				return &canaryError{f.canary}
			}
			panic(crashSentinel{At: ci.Name})
		}
		return err
	}
	p.H.Observe = func(ci *CallInfo) { r.observeStorageCall(ci) }
}

// afterCrash: the request died; an uncommitted transaction is discarded by the database; the process restarts
// and composes a new provider over the surviving store.
func (r *Run) afterCrash() {
	if r.W.Store.AbortOpenTx() {
		r.stat("crash:tx-discarded")
	}
	r.W.Compose()
	r.stat("restart")
}

func isCanary(err error) bool {
	var c *canaryError
	return errors.As(err, &c)
}

// ---------------------------------------------------------------------------
// C20 storage-seam monitor: nothing handed to the storage layer is a usable secret in cleartext.

type seenArg struct{ where string }

func (r *Run) observeStorageCall(ci *CallInfo) {
	if ci.Name == "GetClient" || ci.Name == "Authenticate" {
		return
	}
	check := func(val, where string) {
		if val == "" {
			return
		}
		if label, ok := r.Secrets[val]; ok {
			r.violate("C20", "storage-secret", ci.Name+":"+where+":"+label, "%s received the cleartext %s as %s", ci.Name, label, where)
			if label == "device_code" || label == "user_code" {
				r.violate("C16", "code-stored-in-cleartext", ci.Name+":"+where+":"+label, "%s received the cleartext %s as %s (device and user codes are stored only as signatures)", ci.Name, label, where)
			}
		} else if r.storageSeen != nil {
			if _, dup := r.storageSeen[val]; !dup && len(r.storageSeen) < 20000 {
				r.storageSeen[val] = ci.Name + ":" + where
			}
		}
	}
	for i, k := range ci.Keys {
		check(k, fmt.Sprintf("key%d", i))
	}
	if ci.Req != nil {
		for name, vals := range ci.Req.GetRequestForm() {
			for _, v := range vals {
				check(v, "form."+name)
				if strings.HasPrefix(name, "client_assertion") && name == "client_assertion" {
					check(v, "form."+name)
				}
			}
		}
	}
}

// anyFault: did an injected fault (storage, crash or entropy) hit the current step?
func (r *Run) anyFault() bool {
	return r.Fault.fired || r.Ent.Fired["rand-err"]+r.Ent.Fired["rand-short"] > r.entFiredSeen
}
