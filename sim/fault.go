package sim

import (
	"errors"
	"fmt"
	"strings"

	"github.com/ory/fosite"
)

// faultState: at most one armed fault per step; probes and other harness-internal calls are exempt (suspend>0).
type faultState struct {
	spec    *FaultSpec
	fired   bool
	suspend int
	task    int // the request (task id) the fault is bound to: the first request issued after arming
	canary  string
	n       int
}

func (f *faultState) arm(s *FaultSpec) {
	f.spec = s
	f.fired = false
	f.task = 0
	f.n++
	// hostile bytes: quotes, control characters, HTML, invalid UTF-8
	f.canary = fmt.Sprintf("CANARY%04d\"'<script>\x01\x7f\xff\xfe&amp;{}", f.n)
}

func (f *faultState) disarm(r *Run) {
	if f.spec != nil && f.fired {
		r.stat("fault:" + f.spec.Kind)
	}
	f.spec = nil
}

func (f *faultState) matches(ci *CallInfo) bool {
	if f.spec == nil || f.fired || f.suspend > 0 || ci.Task == nil {
		return false
	}
	if f.task == 0 {
		f.task = ci.Task.ID
	}
	if ci.Task.ID != f.task {
		return false
	}
	switch f.spec.Kind {
	case "begin-fail":
		return ci.Name == "BeginTX"
	case "commit-fail":
		return ci.Name == "Commit"
	case "rollback-fail":
		return ci.Name == "Rollback"
	}
	if f.spec.Call != "" && f.spec.Call != ci.Name {
		return false
	}
	return ci.Idx == f.spec.At
}

type canaryError struct{ s string }

func (e *canaryError) Error() string { return e.s }

func (r *Run) installHooks() {
	p := r.W.Store
	f := r.Fault
	p.H.Before = func(ci *CallInfo) error {
		if !f.matches(ci) {
			return nil
		}
		switch f.spec.Kind {
		case "store-err", "begin-fail", "commit-fail", "rollback-fail":
			f.fired = true
			r.Canaries[f.canary] = true
			r.logf("   fault %s fired at call %d %s", f.spec.Kind, ci.Idx, ci.Name)
			return &canaryError{f.canary}
		case "store-notfound":
			f.fired = true
			r.logf("   fault %s fired at call %d %s", f.spec.Kind, ci.Idx, ci.Name)
			return fosite.ErrNotFound
		case "store-inactive":
			f.fired = true
			r.logf("   fault %s fired at call %d %s", f.spec.Kind, ci.Idx, ci.Name)
			return fosite.ErrInactiveToken
		case "store-serial":
			f.fired = true
			r.logf("   fault %s fired at call %d %s", f.spec.Kind, ci.Idx, ci.Name)
			return fosite.ErrSerializationFailure
		case "crash-before":
			f.fired = true
			r.logf("   fault %s fired at call %d %s", f.spec.Kind, ci.Idx, ci.Name)
			panic(crashSentinel{At: ci.Name})
		}
		return nil
	}
	p.H.After = func(ci *CallInfo, err error) error {
		if f.spec == nil || f.fired || f.suspend > 0 || ci.Task == nil || ci.Task.ID != f.task {
			return err
		}
		if f.spec.Call != "" && f.spec.Call != ci.Name {
			return err
		}
		if ci.Idx != f.spec.At {
			return err
		}
		switch f.spec.Kind {
		case "lost-ack":
			if err == nil && ci.Write {
				f.fired = true
				r.Canaries[f.canary] = true
				r.logf("   fault lost-ack fired at call %d %s", ci.Idx, ci.Name)
				return &canaryError{f.canary}
			}
		case "crash-after":
			f.fired = true
			r.logf("   fault crash-after fired at call %d %s", ci.Idx, ci.Name)
			panic(crashSentinel{At: ci.Name})
		}
		return err
	}
	p.H.Observe = func(ci *CallInfo) { r.observeStorageCall(ci) }
}

// afterCrash: the request died; an uncommitted transaction is discarded by the database; the process restarts
// and composes a new provider over the surviving store.
func (r *Run) afterCrash() {
	if r.W.Store.AbortOpenTx() {
		r.stat("crash:tx-discarded")
	}
	r.W.Compose()
	r.stat("restart")
}

func isCanary(err error) bool {
	var c *canaryError
	return errors.As(err, &c)
}

// ---------------------------------------------------------------------------
// C20 storage-seam monitor: nothing handed to the storage layer is a usable secret in cleartext.

type seenArg struct{ where string }

func (r *Run) observeStorageCall(ci *CallInfo) {
	if ci.Name == "GetClient" || ci.Name == "Authenticate" {
		return
	}
	check := func(val, where string) {
		if val == "" {
			return
		}
		if label, ok := r.Secrets[val]; ok {
			r.violate("C20", "storage-secret", ci.Name+":"+where+":"+label, "%s received the cleartext %s as %s", ci.Name, label, where)
		} else if r.storageSeen != nil {
			if _, dup := r.storageSeen[val]; !dup && len(r.storageSeen) < 20000 {
				r.storageSeen[val] = ci.Name + ":" + where
			}
		}
	}
	for i, k := range ci.Keys {
		check(k, fmt.Sprintf("key%d", i))
	}
	if ci.Req != nil {
		for name, vals := range ci.Req.GetRequestForm() {
			for _, v := range vals {
				check(v, "form."+name)
				if strings.HasPrefix(name, "client_assertion") && name == "client_assertion" {
					check(v, "form."+name)
				}
			}
		}
	}
}
