package sim

import (
	"fmt"
	"net/url"
	"strings"
	"time"
)

func init() {
	extraOps["client_assert"] = (*Run).opClientAssert
	extraOps["bearer_assert"] = (*Run).opBearerAssert
}

type jtiRec struct {
	exp      time.Time
	accepted int
}

// variantClaims: the claim/header overrides of one assertion variant and what the statement says about it.
// verdict: Must (accept), MustNot (reject), Unspec.
func (r *Run) clientAssertVariant(cs *ClientSpec, v string) (map[string]interface{}, Expectation) {
	now := r.now()
	switch v {
	case "ok":
		return nil, Must
	case "aud_array":
		return map[string]interface{}{"aud": []string{"https://other.sim", TokenURL}}, Must
	case "wrong_key":
		return map[string]interface{}{"key": "rsa3"}, MustNot
	case "other_clients_key":
		return map[string]interface{}{"key": "rsa1", "hdr:kid": "kid-rsa1"}, MustNot
	case "alg_not_registered": // valid signature of the registered key, but not the client's registered algorithm
		if !strings.HasPrefix(cs.KeyName, "rsa") {
			return nil, Must
		}
		return map[string]interface{}{"hdr:alg": "RS384"}, MustNot
	case "alg_ps256":
		if !strings.HasPrefix(cs.KeyName, "rsa") {
			return nil, Must
		}
		return map[string]interface{}{"hdr:alg": "PS256"}, MustNot
	case "alg_none":
		return map[string]interface{}{"hdr:alg": "none"}, MustNot
	case "alg_hs256":
		return map[string]interface{}{"hdr:alg": "HS256"}, MustNot
	case "iss_wrong":
		return map[string]interface{}{"iss": "someone-else"}, MustNot
	case "iss_missing":
		return map[string]interface{}{"iss": "-"}, MustNot
	case "sub_wrong":
		return map[string]interface{}{"sub": "conf-a"}, MustNot
	case "sub_missing":
		return map[string]interface{}{"sub": "-"}, MustNot
	case "sub_number":
		return map[string]interface{}{"sub": 12345}, MustNot
	case "sub_list":
		return map[string]interface{}{"sub": []string{cs.ID}}, MustNot
	case "aud_wrong":
		return map[string]interface{}{"aud": "https://as.sim/other"}, MustNot
	case "aud_missing":
		return map[string]interface{}{"aud": "-"}, MustNot
	case "aud_prefix":
		return map[string]interface{}{"aud": TokenURL + "/x"}, MustNot
	case "exp_just_past":
		return map[string]interface{}{"exp": now.Add(-3 * time.Second).Unix()}, MustNot
	case "expired_45s":
		return map[string]interface{}{"exp": now.Add(-45 * time.Second).Unix()}, MustNot
	case "expired":
		return map[string]interface{}{"exp": now.Add(-10 * time.Second).Unix()}, MustNot
	case "expired_long":
		return map[string]interface{}{"exp": now.Add(-48 * time.Hour).Unix()}, MustNot
	case "exp_soon":
		return map[string]interface{}{"exp": now.Add(5 * time.Second).Unix()}, Must
	case "exp_zero":
		return map[string]interface{}{"exp": 0}, MustNot
	case "exp_missing":
		return map[string]interface{}{"exp": "-"}, MustNot
	case "exp_string":
		return map[string]interface{}{"exp": "tomorrow"}, MustNot
	case "exp_negative":
		return map[string]interface{}{"exp": -5}, MustNot
	case "jti_missing":
		return map[string]interface{}{"jti": "-"}, MustNot
	case "jti_empty":
		return map[string]interface{}{"jti": ""}, MustNot
	case "jti_number":
		return map[string]interface{}{"jti": 42}, MustNot
	case "kid_unknown":
		return map[string]interface{}{"hdr:kid": "no-such-kid"}, MustNot
	case "kid_absent":
		return map[string]interface{}{"hdr:kid": ""}, Unspec
	}
	return nil, Unspec
}

var clientAssertVariants = []string{"ok", "ok", "ok", "aud_array", "wrong_key", "other_clients_key", "alg_not_registered", "alg_ps256", "alg_none", "alg_hs256", "iss_wrong", "iss_missing", "sub_list",
	"sub_wrong", "sub_missing", "sub_number", "aud_wrong", "aud_missing", "aud_prefix", "expired", "exp_just_past", "expired_45s", "expired_long", "exp_soon", "exp_zero", "exp_missing", "exp_string", "exp_negative",
	"jti_missing", "jti_empty", "jti_number", "kid_unknown", "kid_absent", "replay", "replay", "same_jti_new_signature"}

func (r *Run) jtiTable() map[string]*jtiRec {
	if r.jtis == nil {
		r.jtis = map[string]*jtiRec{}
	}
	return r.jtis
}

func (r *Run) opClientAssert(st Step) {
	var cs *ClientSpec
	for i := range r.W.K.Clients {
		if r.W.K.Clients[i].AuthMethod == "private_key_jwt" {
			cs = &r.W.K.Clients[i]
			if st.C == 0 {
				break
			}
		}
	}
	if cs == nil {
		return
	}
	now := r.now()
	v := st.V
	var assertion, jti string
	var exp Expectation
	switch v {
	case "replay":
		if r.lastAssertion[cs.ID] == "" {
			return
		}
		assertion, jti = r.lastAssertion[cs.ID], r.lastJTI[cs.ID]
		if e, err := time.Parse(time.RFC3339Nano, r.lastAssertion[cs.ID+"#exp"]); err == nil {
			r.assertExp = e
		}
		exp = Unspec
		if rec := r.jtiTable()[jti]; rec != nil && rec.accepted > 0 {
			exp = MustNot // accepted before: its jti was seen (or the assertion has expired by now)
		}
	case "same_jti_new_signature":
		jti = r.lastJTI[cs.ID]
		rec := r.jtiTable()[jti]
		if jti == "" || rec == nil || rec.accepted == 0 {
			return
		}
		assertion = r.clientAssertion(cs, map[string]interface{}{"jti": jti, "exp": now.Add(7 * time.Minute).Unix()})
		if now.Before(rec.exp.Add(-Tol)) {
			exp = MustNot // the first assertion is still within its validity: the jti must be remembered
		} else {
			exp = Unspec // after the first assertion expired the server may have forgotten the jti
		}
	default:
		over, e := r.clientAssertVariant(cs, v)
		exp = e
		assertion = r.clientAssertion(cs, over)
		jti = fmt.Sprintf("jti-%s-%d", cs.ID, r.assertN)
		if over != nil {
			if j, ok := over["jti"]; ok {
				jti = fmt.Sprint(j)
			}
		}
		if exp == Must {
			r.lastAssertion[cs.ID], r.lastJTI[cs.ID] = assertion, jti
		}
		r.assertExp = now.Add(5 * time.Minute)
		if e, ok := over["exp"].(int64); ok {
			r.assertExp = time.Unix(e, 0)
		}
		if exp == Must {
			// the expiry belongs to THIS assertion: a later replay of it is remembered until then, whatever other clients presented since
			r.lastAssertion[cs.ID+"#exp"] = r.assertExp.Format(time.RFC3339Nano)
		}
	}
	form := url.Values{"grant_type": {"client_credentials"}, "scope": {"photos"},
		"client_assertion_type": {"urn:ietf:params:oauth:client-assertion-type:jwt-bearer"}, "client_assertion": {assertion}}
	if st.p("with_client_id") != "" {
		form.Set("client_id", cs.ID)
	}
	netFault := ""
	if nf := st.p("net_jwks"); nf != "" && cs.JWKSURI != "" {
		netFault = nf
		if nf == "stale" {
			r.W.Net.Stale[cs.JWKSURI] = JWKSFor("rsa3") // cached key set is outdated; a forced refresh finds the registered key
		} else {
			r.W.Net.Fault[cs.JWKSURI] = nf
		}
		r.probe("assert-net:" + nf)
	}
	res := r.call("token", func() *Resp { return r.A.Token(form, nil) })
	delete(r.W.Net.Stale, cs.JWKSURI)
	delete(r.W.Net.Fault, cs.JWKSURI)
	tokens := res.HasTokens()
	if (netFault == "drop" || netFault == "5xx") && exp == Must {
		exp = Unspec // the key set could not be fetched: refusal is legitimate
		if tokens {
			r.violate("C15", "assertion-accepted-without-reachable-keys", netFault, "a private_key_jwt assertion was accepted although the client's jwks_uri could not be fetched")
		}
	}
	r.logf("client_assert %s variant=%s net=%s -> %d %s", cs.ID, v, netFault, res.Status, outcomeOf(res))
	r.Shape = append(r.Shape, "cassert:"+v)
	r.probe("assert-variant:client:" + v)
	if strings.HasPrefix(v, "exp") {
		r.probe("boundary:assertion:" + v)
	}
	if res.Crashed || r.anyFault() {
		return
	}
	if tokens {
		rec := r.jtiTable()[jti]
		if rec == nil {
			rec = &jtiRec{exp: r.assertExp}
			r.jtiTable()[jti] = rec
		}
		rec.accepted++
		if rec.accepted > 1 && (v == "replay" || v == "same_jti_new_signature") && exp == MustNot {
			r.violate("C15", "jti-accepted-twice", "client_assertion:"+v, "client assertion jti %s was accepted a second time (%s)", jti, v)
		}
		g := r.L.NewGrant(&Grant{Client: cs.ID, Origin: "client_credentials", Subject: cs.ID, Scopes: []string{"photos"}, ReqAt: now})
		r.recordTokenResponse(res, g, 0, "client_credentials", cs)
	}
	switch {
	case exp == MustNot && tokens:
		r.violate("C15", "invalid-client-assertion-accepted", v, "a private_key_jwt assertion (%s) authenticated client %s", v, cs.ID)
		if v == "expired" || v == "expired_long" || v == "exp_zero" || v == "exp_negative" || v == "exp_just_past" || v == "expired_45s" {
			r.violate("C07", "honoured-but-must-not", "client_assertion:"+v, "an expired client assertion (%s) was accepted", v)
		}
		r.violate("C10", "tokens-without-client-auth", "client_assertion:"+v, "a private_key_jwt assertion (%s) authenticated client %s", v, cs.ID)
	case exp == MustNot && !tokens:
		if res.ErrName != "invalid_client" && res.ErrName != "invalid_request" && res.ErrName != "jti_known" {
			r.probe("assert-reject-class:" + res.ErrName)
		}
	case exp == Must && !tokens:
		r.sanity("client_assert %s variant=%s refused with %s (%v)", cs.ID, v, res.ErrName, res.Err)
	}
}

func (r *Run) bearerVariant(b *BearerKeySpec, v string) (map[string]interface{}, Expectation, string) {
	now := r.now()
	scope := "photos"
	maxDur := 24 * time.Hour
	if r.W.K.JWTBearerMaxDur != 0 {
		maxDur = time.Duration(r.W.K.JWTBearerMaxDur) * time.Second
	}
	switch v {
	case "ok":
		return nil, Must, scope
	case "aud_array":
		return map[string]interface{}{"aud": []string{"https://x.sim", TokenURL}}, Must, scope
	case "wrong_key":
		return map[string]interface{}{"key": "rsa3"}, MustNot, scope
	case "unknown_iss":
		return map[string]interface{}{"iss": "nobody@sim"}, MustNot, scope
	case "unknown_sub":
		return map[string]interface{}{"sub": "nobody"}, MustNot, scope
	case "iss_missing":
		return map[string]interface{}{"iss": "-"}, MustNot, scope
	case "sub_missing":
		return map[string]interface{}{"sub": "-"}, MustNot, scope
	case "aud_wrong":
		return map[string]interface{}{"aud": []string{"https://as.sim/other"}}, MustNot, scope
	case "aud_missing":
		return map[string]interface{}{"aud": "-"}, MustNot, scope
	case "exp_just_past":
		return map[string]interface{}{"exp": now.Add(-3 * time.Second).Unix(), "iat": now.Add(-5 * time.Minute).Unix()}, MustNot, scope
	case "exp_past_45s":
		return map[string]interface{}{"exp": now.Add(-45 * time.Second).Unix(), "iat": now.Add(-5 * time.Minute).Unix()}, MustNot, scope
	case "exp_soon":
		return map[string]interface{}{"exp": now.Add(4 * time.Second).Unix()}, Must, scope
	case "nbf_just_ahead":
		return map[string]interface{}{"nbf": now.Add(30 * time.Second).Unix()}, MustNot, scope
	case "exp_past":
		return map[string]interface{}{"exp": now.Add(-10 * time.Second).Unix()}, MustNot, scope
	case "exp_missing":
		return map[string]interface{}{"exp": "-"}, MustNot, scope
	case "exp_too_far":
		return map[string]interface{}{"exp": now.Add(maxDur + time.Hour).Unix()}, MustNot, scope
	case "exp_within_max":
		return map[string]interface{}{"exp": now.Add(maxDur / 2).Unix()}, Must, scope
	case "old_iat_exp_beyond_max":
		// the maximum is "the maximum time after the JWT's issued date during which it is considered valid" (config doc): an
		// assertion issued long ago whose exp lies beyond iat+max is refused whether or not iat is a required claim
		return map[string]interface{}{"iat": now.Add(-3 * maxDur).Unix(), "exp": now.Add(maxDur / 8).Unix()}, MustNot, scope
	case "old_iat_within_max":
		return map[string]interface{}{"iat": now.Add(-maxDur / 2).Unix(), "exp": now.Add(maxDur / 4).Unix()}, Must, scope
	case "nbf_future":
		return map[string]interface{}{"nbf": now.Add(10 * time.Minute).Unix()}, MustNot, scope
	case "nbf_past":
		return map[string]interface{}{"nbf": now.Add(-10 * time.Minute).Unix()}, Must, scope
	case "iat_missing":
		if r.W.K.JWTBearerIATOptional {
			return map[string]interface{}{"iat": "-"}, Must, scope
		}
		return map[string]interface{}{"iat": "-"}, MustNot, scope
	case "jti_missing":
		if r.W.K.JWTBearerIDOptional {
			return map[string]interface{}{"jti": "-"}, Must, scope
		}
		return map[string]interface{}{"jti": "-"}, MustNot, scope
	case "scope_outside":
		return nil, MustNot, "photos admin"
	case "scope_client_only":
		// covered by the authenticated client's registration, but not by the key's: the key's registration decides
		return nil, MustNot, t3(has(b.Scopes, "mail.*"), "users.read", "mail.read")
	case "no_scope":
		return nil, Must, ""
	case "scope_wild_ok":
		if has(b.Scopes, "mail.*") && (r.W.K.ScopeStrategy == "" || r.W.K.ScopeStrategy == "wildcard") {
			return nil, Must, "mail.read"
		}
		return nil, Unspec, "photos"
	case "alg_none":
		return map[string]interface{}{"hdr:alg": "none"}, MustNot, scope
	case "alg_hs256":
		return map[string]interface{}{"hdr:alg": "HS256"}, MustNot, scope
	case "kid_unknown":
		return map[string]interface{}{"hdr:kid": "no-such-kid"}, MustNot, scope
	}
	return nil, Unspec, scope
}

var bearerVariants = []string{"ok", "ok", "ok", "aud_array", "wrong_key", "unknown_iss", "unknown_sub", "iss_missing", "sub_missing", "aud_wrong", "aud_missing", "exp_past", "exp_just_past", "exp_past_45s", "exp_soon", "nbf_just_ahead", "exp_missing",
	"exp_too_far", "exp_within_max", "old_iat_exp_beyond_max", "old_iat_within_max", "nbf_future", "nbf_past", "iat_missing", "jti_missing", "scope_outside", "scope_client_only", "scope_client_only", "no_scope", "scope_wild_ok", "alg_none", "alg_hs256", "kid_unknown", "replay", "replay"}

func (r *Run) opBearerAssert(st Step) {
	if len(r.W.K.BearerKeys) == 0 {
		return
	}
	cs := r.clientSpec(st.C)
	b := &r.W.K.BearerKeys[int(st.D)%len(r.W.K.BearerKeys)]
	now := r.now()
	v := st.V
	var assertion, jti, scope string
	var exp Expectation
	key := "bearer:" + b.Issuer
	if v == "replay" {
		if r.lastAssertion[key] == "" {
			return
		}
		assertion, jti, scope = r.lastAssertion[key], r.lastJTI[key], "photos"
		exp = Unspec // no jti (optional), or never accepted before: replay is not pinned down
		if rec := r.jtiTable()[jti]; jti != "" && rec != nil && rec.accepted > 0 {
			exp = MustNot
		}
	} else {
		over, e, sc := r.bearerVariant(b, v)
		exp, scope = e, sc
		// whatever else the variant is about: every requested scope has to be covered by the scopes registered with the signing
		// key (a key registered without scopes covers none)
		for _, s := range splitNonEmpty(scope) {
			switch RefScopeMatch(r.W.K.ScopeStrategy, b.Scopes, s) {
			case No:
				exp = MustNot
			case Open:
				if exp == Must {
					exp = Unspec
				}
			}
		}
		assertion, jti = r.bearerAssertion(b, over)
		if exp == Must {
			r.lastAssertion[key], r.lastJTI[key] = assertion, jti
		}
	}
	form := url.Values{"grant_type": {grantJWTBearer}, "assertion": {assertion}, "scope": {scope}}
	basic := r.applyAuth(cs, st.A, form)
	res := r.call("token", func() *Resp { return r.A.Token(form, basic) })
	tokens := res.HasTokens()
	r.logf("bearer_assert %s variant=%s by %s -> %d %s", b.Issuer, v, cs.ID, res.Status, outcomeOf(res))
	r.Shape = append(r.Shape, "bassert:"+v)
	r.probe("assert-variant:bearer:" + v)
	if strings.HasPrefix(v, "exp_") || strings.HasPrefix(v, "nbf_") {
		r.probe("boundary:assertion:" + v)
	}
	if res.Crashed || r.anyFault() {
		return
	}
	if !r.authOK(cs, st.A) && !r.W.K.JWTBearerSkipClientAuth {
		if tokens {
			r.violate("C10", "tokens-without-client-auth", "jwt_bearer", "jwt-bearer grant honoured without valid client authentication")
		}
		return
	}
	if !has(cs.GrantTypes, grantJWTBearer) && !r.W.K.JWTBearerSkipClientAuth {
		return
	}
	if tokens {
		if jti != "" {
			rec := r.jtiTable()[jti]
			if rec == nil {
				rec = &jtiRec{exp: now.Add(10 * time.Minute)}
				r.jtiTable()[jti] = rec
			}
			rec.accepted++
			if rec.accepted > 1 {
				r.violate("C15", "jti-accepted-twice", "bearer:"+v, "JWT-bearer jti %s was accepted a second time", jti)
			}
		}
		g := r.L.NewGrant(&Grant{Client: cs.ID, Origin: "jwt_bearer", Subject: b.Subject, Scopes: splitNonEmpty(scope), Audience: nil, ReqAt: now, Unspec: true})
		r.recordTokenResponse(res, g, 0, "jwt_bearer", cs)
	}
	switch {
	case exp == MustNot && tokens:
		r.violate("C15", "invalid-bearer-assertion-accepted", v, "a JWT-bearer assertion (%s) for %s/%s was accepted", v, b.Issuer, b.Subject)
		if v == "exp_past" || v == "exp_just_past" || v == "exp_past_45s" {
			r.violate("C07", "honoured-but-must-not", "bearer_assertion:"+v, "an expired JWT-bearer assertion (%s) was accepted", v)
		}
		if v == "scope_outside" || v == "scope_client_only" {
			r.violate("C12", "scope-outside-registration", "jwt_bearer", "a JWT-bearer grant accepted scope %q, the key's scopes are %v", scope, b.Scopes)
		}
	case exp == Must && !tokens:
		r.sanity("bearer_assert %s variant=%s refused with %s (%v)", b.Issuer, v, res.ErrName, res.Err)
	}
}

func init() {
	reg(&Profile{Name: "c15", Prop: "C15", Gen: func(t *Tape) *Plan {
		k := Knobs{Clients: baseClients(t), Users: map[string]string{"peter": "peters-password"}, Store: "plain", BearerKeys: bearerKeys()}
		jwtClients(&k)
		k.Clients = append(k.Clients, ClientSpec{ID: "oidc-jwt-ec", OIDC: true, AuthMethod: "private_key_jwt", KeyName: "ec_p256_0", AuthAlg: "ES256",
			GrantTypes: []string{"client_credentials", grantJWTBearer}, Scopes: []string{"photos"}})
		if t.Chance(50) {
			// the RSA client publishes its keys at a jwks_uri: fetched over the simulated network
			for i := range k.Clients {
				if k.Clients[i].ID == "oidc-jwt" {
					k.Clients[i].JWKSURI = "https://oidc-jwt.sim/jwks.json"
				}
			}
		}
		k.JWTAccess = t.Chance(30)
		k.JWTBearerIDOptional = t.Chance(30)
		k.JWTBearerIATOptional = t.Chance(30)
		k.JWTBearerSkipClientAuth = t.Chance(20)
		if t.Chance(40) {
			k.JWTBearerMaxDur = int64(t.Range(600, 7*86400))
		}
		k.ScopeStrategy = t.Pick([]string{"", "", "exact", "hierarchic"})
		var steps []Step
		n := t.Range(10, 40)
		for len(steps) < n {
			switch t.Weighted([]int{40, 35, 10, 6, 6}) {
			case 0:
				ca := Step{Op: "client_assert", C: t.Intn(2), V: t.Pick(clientAssertVariants), P: map[string]string{}}
				if t.Chance(25) {
					ca.P["net_jwks"] = t.Pick([]string{"drop", "5xx", "delay", "stale", "stale"})
				}
				if t.Chance(40) {
					ca.P["with_client_id"] = "1" // client_id may accompany the assertion (RFC 7521 4.2); the claims are checked all the same
				}
				steps = append(steps, ca)
			case 1:
				steps = append(steps, Step{Op: "bearer_assert", C: t.Intn(2), D: int64(t.Intn(3)), V: t.Pick(bearerVariants), A: t.Pick([]string{"", "", "", "none", "bad_secret"})})
			case 2:
				switch t.Intn(3) {
				case 0:
					steps = append(steps, Step{Op: "advance", D: int64(t.Range(1, 20)) * 1000})
				case 1:
					steps = append(steps, Step{Op: "advance", D: int64(t.Range(4, 12)) * 60 * 1000})
				default:
					steps = append(steps, Step{Op: "advance", D: int64(t.Range(1, 30)) * 3600 * 1000})
				}
			case 3:
				var picks []int
				for i := 0; i < 30; i++ {
					picks = append(picks, t.Intn(3))
				}
				steps = append(steps, Step{Op: "concurrent", V: "same_client_assertion", D: int64(t.Range(2, 3)), S: picks})
			case 4:
				var picks []int
				for i := 0; i < 30; i++ {
					picks = append(picks, t.Intn(3))
				}
				steps = append(steps, Step{Op: "concurrent", V: "same_bearer_assertion", D: int64(t.Range(2, 3)), S: picks})
			}
		}
		return &Plan{Profile: "c15", Prop: "C15", K: k, Steps: steps}
	}})
	regProp(&PropSpec{ID: "C15", Profiles: []string{"c15"}, Characteristic: []string{"assert-variant:", "jti-concurrent"}, Enumerate: enumerateConcFor("C15")})
}

func t3(c bool, a, b string) string {
	if c {
		return a
	}
	return b
}
