package sim

import (
	"encoding/json"
	"fmt"
	"net"
	"net/url"
	"sort"
	"strings"
	"time"

	"github.com/pkg/errors"

	"github.com/ory/fosite"
)

// ---------------------------------------------------------------------------
// C20 response-seam monitor: runs on every response of every endpoint in every profile.

func (r *Run) monitorResp(endpoint string, res *Resp) {
	if res.Crashed {
		return
	}
	r.stat("resp:" + endpoint)
	// no-store / no-cache on every response that can carry tokens, codes or errors
	cc, pr := res.Header.Get("Cache-Control"), res.Header.Get("Pragma")
	if !strings.Contains(cc, "no-store") || !strings.Contains(pr, "no-cache") {
		r.violate("C20", "missing-no-store", endpoint, "%s response (status %d, error %q) lacks Cache-Control: no-store / Pragma: no-cache (got %q / %q)", endpoint, res.Status, res.ErrName, cc, pr)
	}
	// injected storage errors carry a canary with hostile bytes: it may only surface when debug exposure is on
	loc := res.Header.Get("Location")
	for c := range r.Canaries {
		short := c[:10] // CANARYnnnn
		if strings.Contains(res.Body, short) || strings.Contains(loc, short) {
			r.probe("canary-surfaced")
			if !r.W.K.Debug {
				r.violate("C20", "debug-detail-leaked", endpoint, "%s response exposes internal error detail although debug exposure is off: %q %q", endpoint, truncate(res.Body, 300), truncate(loc, 300))
			}
		}
	}
	if res.Err == nil {
		return
	}
	var rfc *fosite.RFC6749Error
	if !errors.As(res.Err, &rfc) {
		rfc = fosite.ErrorToRFC6749Error(res.Err)
	}
	want := rfc.ErrorField
	switch endpoint {
	case "token", "par", "device", "introspect":
		if endpoint == "introspect" && res.JSON != nil && res.JSON["active"] == false {
			return // inactive answers are not errors
		}
		r.checkJSONError(endpoint, res, want, rfc.CodeField)
	case "revoke":
		// WriteRevocationResponse deliberately answers 200 for everything except invalid_request / invalid_client
		if want == "invalid_request" || want == "invalid_client" {
			r.checkJSONError(endpoint, res, want, rfc.CodeField)
		}
	case "authorize":
		if res.Redirect == nil && res.FormPost == nil {
			r.checkJSONError(endpoint, res, want, rfc.CodeField)
		} else {
			p := res.Params()
			if p.Get("error") != want {
				r.violate("C20", "malformed-error", endpoint, "redirected error carries error=%q, the library raised %q", p.Get("error"), want)
			}
		}
	}
}

func truncate(s string, n int) string {
	if len(s) > n {
		return s[:n] + "…"
	}
	return s
}

func (r *Run) checkJSONError(endpoint string, res *Resp, want string, status int) {
	var m map[string]interface{}
	if err := json.Unmarshal([]byte(res.Body), &m); err != nil {
		r.violate("C20", "malformed-error", endpoint, "%s error response is not valid JSON (%v): %q", endpoint, err, truncate(res.Body, 200))
		return
	}
	if !strings.Contains(res.Header.Get("Content-Type"), "application/json") {
		r.violate("C20", "malformed-error", endpoint+":content-type", "%s error response has Content-Type %q", endpoint, res.Header.Get("Content-Type"))
	}
	if got, _ := m["error"].(string); got == "error" && errors.Is(res.Err, fosite.ErrSerializationFailure) {
		// fosite defines ErrSerializationFailure with the catch-all code and HTTP 409: a retryable conflict by design (C18)
	} else if got == "error" {
		key := endpoint
		if r.Fault.fired && r.Fault.call != "" {
			key += ":" + r.Fault.call
		} else if r.anyFault() {
			key += ":entropy-failure"
		} else if r.shortSecret {
			key += ":short-global-secret"
		}
		r.violate("C20", "non-rfc-error-code", key, "%s error response carries the catch-all code \"error\" (HTTP %d): an internal, non-OAuth error was written to the client: %s", endpoint, res.Status, truncate(res.Body, 200))
	} else if got != want {
		r.violate("C20", "malformed-error", endpoint, "%s error response carries error=%q, the library raised %q", endpoint, got, want)
	}
	if res.Status != status {
		r.violate("C20", "malformed-error", endpoint+":status", "%s error %q answered with HTTP %d, its RFC status is %d", endpoint, want, res.Status, status)
	}
	if r.W.K.Debug {
		return
	}
	if _, ok := m["error_debug"]; ok {
		r.violate("C20", "debug-detail-leaked", endpoint, "%s error response has error_debug although debug exposure is off", endpoint)
	}
}

// ---------------------------------------------------------------------------
// C11 / C13 monitors on every authorization-endpoint response.

var responseParamKeys = map[string]bool{"code": true, "state": true, "scope": true, "error": true, "error_description": true, "error_hint": true,
	"error_debug": true, "access_token": true, "token_type": true, "expires_in": true, "id_token": true}

func isLoopbackIP(host string) bool {
	ip := net.ParseIP(host)
	return ip != nil && ip.IsLoopback()
}

func queryMinusResponse(q url.Values) string {
	var parts []string
	for k, vs := range q {
		if responseParamKeys[k] {
			continue
		}
		for _, v := range vs {
			parts = append(parts, k+"="+v)
		}
	}
	sort.Strings(parts)
	return strings.Join(parts, "&")
}

// RefRedirectQualifies: does the requested redirect_uri string qualify against the registered set (statement of C11)?
func RefRedirectQualifies(requested string, registered []string) Tri {
	if requested == "" {
		if len(registered) == 1 {
			return Open // single registered URI is used; whether it is usable is the registration's business
		}
		return No
	}
	u, err := url.Parse(requested)
	if err != nil {
		return No
	}
	if u.Fragment != "" || strings.Contains(requested, "#") {
		return No
	}
	if u.Scheme == "" {
		return No
	}
	for _, reg := range registered {
		if reg == requested {
			return Yes
		}
		ru, err := url.Parse(reg)
		if err != nil {
			continue
		}
		if u.Scheme == "http" && isLoopbackIP(u.Hostname()) && ru.Hostname() == u.Hostname() && ru.Path == u.Path && ru.RawQuery == u.RawQuery {
			return Yes
		}
	}
	return No
}

// targetRegistered: is the redirect target (Location / form action, stripped of response parameters) a registered URI
// or a loopback variant of one?
func targetRegistered(target *url.URL, registered []string) bool {
	tq := queryMinusResponse(target.Query())
	for _, reg := range registered {
		ru, err := url.Parse(reg)
		if err != nil {
			continue
		}
		rq := queryMinusResponse(ru.Query())
		if ru.Scheme == target.Scheme && ru.Host == target.Host && ru.EscapedPath() == target.EscapedPath() && rq == tq && ru.User.String() == target.User.String() {
			return true
		}
		if target.Scheme == "http" && ru.Scheme == "http" && isLoopbackIP(target.Hostname()) && ru.Hostname() == target.Hostname() && ru.Path == target.Path && rq == tq {
			return true
		}
	}
	return false
}

// checkAuthorizeResponse is called for EVERY outcome of the authorization endpoint.
func (r *Run) checkAuthorizeResponse(cs *ClientSpec, q url.Values, res *Resp, pushedRedirect string, viaPAR bool) {
	if res.Crashed {
		return
	}
	requested := q.Get("redirect_uri")
	if viaPAR {
		requested = pushedRedirect
	}
	var target *url.URL
	if res.Redirect != nil {
		target = res.Redirect
	} else if res.FormPost != nil && res.FormAction != "" {
		target, _ = url.Parse(res.FormAction)
		if target == nil {
			r.violate("C11", "redirect-to-unregistered-uri", "form_post", "form_post action %q is not a URI", res.FormAction)
			return
		}
	}
	if target == nil && res.Err != nil {
		r.probe("authz-direct-error")
	}
	if target != nil {
		r.stat("authz-redirects")
		if res.FormPost != nil && q.Get("response_mode") == SimResponseMode {
			if res.Err != nil {
				r.probe("authz-custom-response-mode:error")
			} else {
				r.probe("authz-custom-response-mode:success")
			}
		}
		if res.FormPost != nil {
			r.probe("authz-redirect:form_post")
		} else if len(res.Fragment) > 0 {
			r.probe("authz-redirect:fragment")
		} else {
			r.probe("authz-redirect:query")
		}
		var registered []string
		if cs != nil {
			registered = cs.RedirectURIs
		}
		if res.FormPost != nil && res.FormAction == "#ZgotmplZ" {
			r.violate("C11", "redirect-to-unregistered-uri", "form_post-action-sanitised", "the form_post page posts to %q instead of the validated redirect URI %q (html/template replaced the non-http(s) URL)", res.FormAction, requested)
			return
		}
		if cs == nil || !targetRegistered(target, registered) {
			r.violate("C11", "redirect-to-unregistered-uri", "", "the authorization endpoint redirected to %q (requested redirect_uri %q, registered %v)", target.String(), requested, registered)
		} else if !viaPAR && RefRedirectQualifies(requested, registered) == No {
			r.violate("C11", "redirect-although-requested-uri-does-not-qualify", "", "requested redirect_uri %q does not qualify (registered %v) but a redirect to %q was issued", requested, registered, target.String())
		}
		if !target.IsAbs() {
			r.violate("C11", "redirect-target-not-absolute", "", "redirect target %q is not absolute", target.String())
		}
		// tokens never travel in the query string
		if res.Redirect != nil {
			for _, k := range []string{"access_token", "id_token"} {
				if res.Redirect.Query().Get(k) != "" {
					r.violate("C13", "token-in-query", k, "the redirect Location carries %s in its query string: %s", k, redactLoc(res.Redirect))
				}
			}
		}
		// state echoed unchanged on success and on redirected errors
		want := q.Get("state")
		if viaPAR {
			want = r.parState
		}
		got := res.Params().Get("state")
		if got != want && isVSCHAR(want) { // states outside RFC 6749's VSCHAR grammar have no defined transport
			r.violate("C13", "state-not-echoed", "", "state %q came back as %q (error %q)", want, got, res.ErrName)
		}
	}
}

func redactLoc(u *url.URL) string {
	c := *u
	c.RawQuery = "…"
	c.Fragment = ""
	return c.String()
}

// checkAuthorizeSuccess: conditions under which a successful authorization may happen at all (C13, C11 secure clause, C12 confinement).
func (r *Run) checkAuthorizeSuccess(st Step, cs *ClientSpec, g *Grant, res *Resp, p url.Values) {
	rtype := splitNonEmpty(g.Params["response_type"])
	// response_type must be one of the client's registered combinations (as a set)
	okRT := false
	regRT := cs.ResponseTypes
	if len(regRT) == 0 {
		regRT = []string{"code"}
	}
	// the library documents its argument lists as case-insensitive (fosite.Arguments); the statement says "as a set" and nothing
	// about letter case, so values are folded before the SETS are compared ("code CODE" is the set {code})
	fold := func(xs []string) []string {
		var out []string
		for _, x := range xs {
			out = appendUniq(out, strings.ToLower(x))
		}
		return out
	}
	for _, reg := range regRT {
		if sameSet(fold(splitNonEmpty(reg)), fold(rtype)) {
			okRT = true
		}
	}
	if !okRT {
		r.violate("C13", "unregistered-response-type", "", "client %s (registered %v) was answered for response_type %q", cs.ID, regRT, g.Params["response_type"])
	}
	// an ID token delivered next to a code (hybrid flow) is not treated as an implicit-grant token by the library; the statement
	// does not single it out either => only access tokens, and ID tokens of the pure implicit flow, are judged
	if (p.Get("access_token") != "" || (p.Get("id_token") != "" && !has(rtype, "code"))) && !has(cs.GrantTypes, "implicit") {
		r.violate("C13", "tokens-without-implicit-grant", "", "client %s lacks the implicit grant but received tokens from the authorization endpoint", cs.ID)
	}
	if len(g.State) < r.minEntropy() {
		r.violate("C13", "short-state-accepted", "", "state %q is shorter than the configured minimum %d", g.State, r.minEntropy())
	}
	if has(splitNonEmpty(st.p("scope")), "openid") && g.Redirect == "" && !g.ViaPAR {
		r.violate("C13", "openid-without-redirect-uri", "", "an OpenID Connect request without redirect_uri was accepted")
	}
	if p.Get("id_token") != "" && len(g.Nonce) < r.minEntropy() {
		r.violate("C13", "id-token-without-nonce", "", "an ID token was issued from the authorization endpoint for nonce %q (minimum length %d)", g.Nonce, r.minEntropy())
	}
	if r.W.K.PAREnforced && !g.ViaPAR {
		r.violate("C17", "authorized-without-request-uri-although-enforced", g.Origin, "pushing is enforced but an authorization request without a request_uri was answered with a success (response_type %q)", g.Params["response_type"])
	}
	if m := st.p("mode"); m != "" && !has(cs.ResponseModes, m) && !g.ViaPAR {
		r.violate("C13", "unregistered-response-mode", "", "client %s (modes %v) was answered with response_mode %q", cs.ID, cs.ResponseModes, m)
	}
	// plain-http targets only on loopback/localhost for the authorization-code flow
	if len(rtype) == 1 && rtype[0] == "code" && !r.W.K.AllowInsecureRedirect {
		if u, err := url.Parse(g.Redirect); err == nil && g.Redirect != "" && u.Scheme == "http" {
			h := u.Hostname()
			if !(h == "localhost" || strings.HasSuffix(h, ".localhost") || isLoopbackIP(h)) {
				r.violate("C11", "insecure-redirect-accepted", "", "the code flow accepted the plain-http redirect target %q", g.Redirect)
			}
		}
	}
	r.checkConfinement("authorize:"+g.Origin, cs, g, "authz")
	// PKCE enforcement: a challenge-less authorisation under enforcement must not even get a code
	if g.Challenge == "" && r.pkceEnforcedFor(cs) && p.Get("code") != "" {
		r.probe("pkce-enforced-no-challenge-got-code")
	}
	if g.Method == "plain" && !r.W.K.PKCEPlain && p.Get("code") != "" {
		r.violate("C03", "plain-accepted-although-disabled", "", "a code was issued for code_challenge_method=plain although plain is not enabled")
	}
	if id := p.Get("id_token"); id != "" {
		var idc *Cred
		if c, ok := r.L.ByVal[id]; ok {
			idc = c
		}
		r.checkIDToken(idc, g, cs, p.Get("access_token"), p.Get("code"), false)
	}
	if at := p.Get("access_token"); at != "" && r.W.K.JWTAccess {
		r.checkJWTAccessToken(at, g, r.L.ByVal[at])
	}
}

func (r *Run) minEntropy() int {
	if r.W.K.MinParamEntropy == 0 {
		return 8 // documented default (fosite.MinParameterEntropy)
	}
	return r.W.K.MinParamEntropy
}

// checkConfinement (C12): no flow accepts a requested scope/audience the registration does not cover; nothing granted beyond it.
func (r *Run) checkConfinement(flow string, cs *ClientSpec, g *Grant, desc string) {
	r.probe("confine:" + flow)
	for _, s := range g.Scopes {
		if RefScopeMatch(r.W.K.ScopeStrategy, cs.Scopes, s) == No {
			r.violate("C12", "scope-outside-registration", flow, "%s: scope %q was accepted for client %s whose registration allows %v (strategy %q)", desc, s, cs.ID, cs.Scopes, r.W.K.ScopeStrategy)
		}
	}
	for _, a := range g.Audience {
		if RefAudienceMatch(r.W.K.AudStrategy, cs.Audience, a) == No {
			r.violate("C12", "audience-outside-registration", flow, "%s: audience %q was accepted for client %s whose registration allows %v (strategy %q)", desc, a, cs.ID, cs.Audience, r.W.K.AudStrategy)
		}
	}
}

// ---------------------------------------------------------------------------
// token responses

func (r *Run) checkTokenResponse(grantKey string, g *Grant, cs *ClientSpec, res *Resp, at, rt, id *Cred, code *Cred) {
	propGrant := "C02"
	if grantKey == "refresh_token" {
		propGrant = "C05"
	}
	if sc, ok := res.JSON["scope"].(string); ok {
		if !sameSet(splitNonEmpty(sc), g.Scopes) {
			r.violate(propGrant, "grant-changed", "response-scope", "%s response advertises scope %q, the resource owner granted %v", grantKey, sc, g.Scopes)
			r.violate("C12", "grant-changed", "response-scope", "%s response advertises scope %q, the resource owner granted %v", grantKey, sc, g.Scopes)
		}
	}
	if rt != nil {
		rs := r.W.K.DocRefreshScopes()
		if len(rs) > 0 && !hasOneOf(g.Scopes, rs) {
			r.violate("C05", "refresh-token-without-refresh-scope", grantKey, "a refresh token was issued although the grant %v holds none of the configured refresh scopes %v", g.Scopes, rs)
		}
		if (grantKey == "authorization_code" || grantKey == "device_code") && !has(cs.GrantTypes, "refresh_token") {
			key := grantKey
			if g.Params["had_refresh_grant_at_authorization"] == "1" {
				key += ":registration-record-replaced-after-authorization"
			}
			r.violate("C05", "refresh-token-to-client-without-grant", key, "client %s is not registered for refresh_token but received one", cs.ID)
		}
	}
	if at != nil && at.Life > 0 && at.ExpiresIn > 0 {
		if d := at.ExpiresIn - at.Life; d > Tol || d < -Tol {
			r.violate("C07", "expires-in-inconsistent", grantKey, "expires_in=%s but the documented/configured lifetime for this grant is %s", at.ExpiresIn, at.Life)
		}
	}
	if at != nil && r.W.K.JWTAccess {
		r.checkJWTAccessToken(at.Val, g, at)
	}
	if id != nil {
		codeVal := ""
		r.checkIDToken(id, g, cs, res.Str("access_token"), codeVal, grantKey == "refresh_token")
	}
	for _, k := range []string{"Cache-Control"} {
		_ = k
	}
}

// checkIDToken (C14): verified with go-jose and the public key directly.
func (r *Run) checkIDToken(idc *Cred, g *Grant, cs *ClientSpec, atVal, codeVal string, isRefresh bool) {
	if idc == nil {
		return
	}
	r.stat("idtoken-checked")
	r.probe("idtoken-checked:" + map[bool]string{true: "refresh", false: idc.Endpoint}[isRefresh])
	keyName := r.W.K.IDKey
	if keyName == "" {
		keyName = "rsa0"
	}
	hdr, claims, err := VerifyJWT(idc.Val, keyName)
	if err != nil {
		r.violate("C14", "id-token-not-verifiable", "", "ID token does not verify under the server's signing key: %v", err)
		return
	}
	alg, _ := hdr["alg"].(string)
	where := "token endpoint"
	if idc.Endpoint == "authorize" {
		where = "authorization endpoint"
	}
	if isRefresh {
		where = "refresh"
	}
	if !g.OpenID {
		r.violate("C14", "id-token-without-openid", "", "an ID token was issued (%s) for grant %v without the openid scope", where, g.Scopes)
	}
	if g.Subject == "" {
		r.violate("C14", "id-token-without-subject", "", "an ID token was issued (%s) for an empty subject", where)
	}
	if !has(claimStrings(claims, "aud"), cs.ID) {
		r.violate("C14", "id-token-claims", "aud", "aud %v does not name the requesting client %s (%s)", claims["aud"], cs.ID, where)
	}
	if sub, _ := claims["sub"].(string); sub != g.Subject {
		r.violate("C14", "id-token-claims", "sub", "sub %q is not the session's subject %q (%s)", sub, g.Subject, where)
	}
	if iss, _ := claims["iss"].(string); iss != IssuerURL {
		r.violate("C14", "id-token-claims", "iss", "iss %q is not the configured issuer (%s)", iss, where)
	}
	nonce, _ := claims["nonce"].(string)
	if !isRefresh && nonce != g.Nonce {
		r.violate("C14", "id-token-claims", "nonce", "nonce %q does not echo the request's nonce %q (%s)", nonce, g.Nonce, where)
	}
	if isRefresh && nonce != "" && nonce != g.Nonce {
		r.violate("C14", "id-token-claims", "nonce", "nonce %q is not the request's nonce %q (%s)", nonce, g.Nonce, where)
	}
	now := r.now()
	if exp, ok := claimTime(claims, "exp"); !ok {
		r.violate("C14", "id-token-claims", "exp", "no exp claim (%s)", where)
	} else {
		if !exp.After(now.Add(-time.Second)) {
			r.violate("C14", "id-token-claims", "exp", "exp %s is not in the future (now %s) (%s)", exp.UTC().Format(time.RFC3339), now.UTC().Format(time.RFC3339), where)
		}
		if g.PresetIDExp.IsZero() && idc.Life > 0 && exp.After(now.Add(idc.Life+Tol)) {
			key := "exp"
			for _, o := range g.Creds {
				if o.Kind == "id" && o != idc && o.Endpoint == "authorize" && idc.Endpoint == "token" && !isRefresh {
					key = "exp:hybrid-inherits-expiry-of-authorize-endpoint-id-token"
				}
			}
			r.violate("C14", "id-token-claims", key, "exp %s lies beyond the configured lifetime %s (%s)", exp.UTC().Format(time.RFC3339), idc.Life, where)
		}
		if g.PresetIDExp.IsZero() && idc.Life > 0 && !isRefresh && idc.Endpoint == "authorize" && exp.Before(now.Add(idc.Life-Tol)) {
			r.violate("C07", "id-token-lifetime", "", "ID token exp %s is shorter than the configured lifetime %s (%s)", exp.Sub(now), idc.Life, where)
		}
	}
	if atVal != "" {
		want := leftHalfHash(alg, atVal)
		got, _ := claims["at_hash"].(string)
		if got != want {
			r.violate("C14", "id-token-hash", "at_hash:"+map[bool]string{true: "refresh", false: idc.Endpoint}[isRefresh], "at_hash %q is not the left half of the %s-selected hash of the access token delivered in the same response (%s)", got, alg, where)
		}
	}
	if codeVal != "" {
		want := leftHalfHash(alg, codeVal)
		got, _ := claims["c_hash"].(string)
		if got != want {
			r.violate("C14", "id-token-hash", "c_hash", "c_hash %q is not the left half of the %s-selected hash of the code delivered in the same response (%s)", got, alg, where)
		}
	}
	if isRefresh {
		if ch, ok := claims["c_hash"]; ok && ch != "" {
			r.violate("C14", "id-token-hash", "c_hash-on-refresh", "an ID token minted on refresh still carries c_hash")
		}
	}
}

// checkJWTAccessToken (C06/C12): valid signature from the configured key, asymmetric algorithm; carries exactly the granted scopes/audience.
func (r *Run) checkJWTAccessToken(tok string, g *Grant, c *Cred) {
	keyName := r.W.K.IDKey
	if keyName == "" {
		keyName = "rsa0"
	}
	_, claims, err := VerifyJWT(tok, keyName)
	if err != nil {
		r.violate("C06", "jwt-access-token-not-verifiable", "", "JWT access token does not verify under the configured key with an asymmetric algorithm: %v", err)
		return
	}
	// the configured claim(s) carry exactly the granted scopes: "scp" as a list, "scope" as a space-separated string, or both
	_, hasList := claims["scp"]
	str, hasStr := claims["scope"].(string)
	wantList, wantStr := r.W.K.JWTScopeField <= 1 || r.W.K.JWTScopeField == 3, r.W.K.JWTScopeField >= 2
	if hasList || wantList {
		if scp := claimStrings(claims, "scp"); !sameSet(scp, g.Scopes) {
			r.violate("C12", "token-carries-ungranted", "scope", "JWT access token carries scopes %v (claim scp), granted %v", scp, g.Scopes)
		}
	}
	if hasStr || wantStr {
		if scp := splitNonEmpty(str); !sameSet(scp, g.Scopes) {
			r.violate("C12", "token-carries-ungranted", "scope", "JWT access token carries scopes %v (claim scope), granted %v", scp, g.Scopes)
		}
	}
	aud := claimStrings(claims, "aud")
	for _, a := range aud {
		if !has(g.Audience, a) {
			r.violate("C12", "token-carries-ungranted", "aud", "JWT access token carries audience %v, granted %v", aud, g.Audience)
		}
	}
	if c != nil && c.Life > 0 {
		if exp, ok := claimTime(claims, "exp"); ok {
			want := c.Issued.Add(c.Life)
			if exp.Sub(want) > Tol || want.Sub(exp) > Tol {
				r.violate("C07", "jwt-exp-inconsistent", "", "JWT access token exp %s differs from issue time + lifetime %s", exp.UTC().Format(time.RFC3339), want.UTC().Format(time.RFC3339))
			}
		} else {
			r.violate("C07", "jwt-exp-inconsistent", "missing", "JWT access token has no exp")
		}
	}
}

var _ = fmt.Sprintf

func isVSCHAR(s string) bool {
	for i := 0; i < len(s); i++ {
		if s[i] < 0x20 || s[i] > 0x7e {
			return false
		}
	}
	return true
}
