package sim

import (
	"encoding/json"
	"fmt"
	"os"
	"sort"
	"strconv"
	"testing"
	"time"
)

// TestOne: developer entry point: SIM_PROFILE=c01 SIM_SEED=1 go test -run TestOne -v
func TestOne(t *testing.T) {
	prof := os.Getenv("SIM_PROFILE")
	if prof == "" {
		t.Skip("SIM_PROFILE not set")
	}
	seed, _ := strconv.ParseUint(os.Getenv("SIM_SEED"), 10, 64)
	n, _ := strconv.Atoi(os.Getenv("SIM_N"))
	if n == 0 {
		n = 1
	}
	p := Profiles[prof]
	if p == nil {
		t.Fatalf("unknown profile %s", prof)
	}
	start := time.Now()
	bad := 0
	sigs := map[string]int{}
	first := map[string]uint64{}
	for i := 0; i < n; i++ {
		s := seed + uint64(i)
		plan := p.Gen(NewTape(s))
		plan.Seed = s
		if os.Getenv("SIM_DEBUG") != "" {
			plan.K.Debug = true
		}
		res := Execute(t, plan)
		if len(res.Violations) > 0 && os.Getenv("SIM_NOGATE") == "" {
			if re := Execute(t, plan); re.LogHash != res.LogHash {
				fmt.Printf("NONDETERMINISM seed %d: %s\n", s, firstLogDiff(res.Log, re.Log))
				for _, l := range res.Log {
					fmt.Println("  A|", l)
				}
				sigs["NONDETERMINISM"]++
				first["NONDETERMINISM"] = s
			}
		}
		for _, v := range res.Violations {
			sigs[v.Sig()]++
			if _, ok := first[v.Sig()]; !ok {
				first[v.Sig()] = s
			}
		}
		if len(res.Sanity) > 0 {
			sigs["SANITY"]++
			if _, ok := first["SANITY"]; !ok {
				first["SANITY"] = s
			}
		}
		if res.Panic != "" {
			sigs["PANIC "+res.Panic]++
			first["PANIC "+res.Panic] = s
		}
		if n == 1 || len(res.Violations) > 0 || len(res.Sanity) > 0 || res.Panic != "" {
			if n > 1 && (bad > 3 || os.Getenv("SIM_SUMMARY") != "") {
				continue
			}
			bad++
			fmt.Printf("=== seed %d steps %d simtime %s hash %s panic=%q\n", s, res.Steps, res.SimTime, res.LogHash, res.Panic)
			if os.Getenv("SIM_QUIET") == "" {
				for _, l := range res.Log {
					fmt.Println(l)
				}
			}
			for _, v := range res.Violations {
				fmt.Printf("VIOL %s: %s\n", v.Sig(), v.Detail)
			}
			for _, v := range res.Sanity {
				fmt.Printf("SANITY %s\n", v)
			}
			if n == 1 {
				kk := plan.K
				kk.Clients = nil
				kb, _ := json.Marshal(kk)
				fmt.Println("KNOBS", string(kb))
				b, _ := json.Marshal(res.Stats)
				fmt.Println(string(b))
				b, _ = json.Marshal(res.Probes)
				fmt.Println(string(b))
			}
		}
	}
	for k, v := range sigs {
		fmt.Printf("SIG %-80s count=%d first_seed=%d\n", k, v, first[k])
	}
	fmt.Printf("ran %d in %s\n", n, time.Since(start))
}

func TestWorker(t *testing.T) { RunWorker(t) }
func TestReplay(t *testing.T) { RunReplay(t) }

func TestEnumC18(t *testing.T) {
	if os.Getenv("SIM_ENUM") == "" {
		t.Skip()
	}
	job := &Job{Property: "C18", Workers: 1, Worker: 0}
	out := &WorkerOut{Other: map[string]int{}, Stats: map[string]int{}, Probes: map[string]int{}}
	found := map[string]*Found{}
	start := time.Now()
	ex := enumerateC18(t, job, out, found)
	fmt.Println(ex, out.Runs, time.Since(start))
	for k, f := range found {
		fmt.Println("FOUND", k, f.Count, f.Detail)
	}
	for k, v := range out.Other {
		fmt.Println("OTHER", k, v)
	}
	for _, s := range out.Sanity {
		fmt.Println("SANITY", s)
	}
	for _, s := range out.Panics {
		fmt.Println("PANIC", s)
	}
	for k, f := range found {
		_ = k
		_ = f
	}
	b, _ := json.Marshal(out.Probes)
	fmt.Println(string(b))
}

// TestHashes prints "profile seed loghash" lines for the determinism self-test (run in several processes and diffed).
func TestHashes(t *testing.T) {
	if os.Getenv("SIM_HASHES") == "" {
		t.Skip()
	}
	n, _ := strconv.Atoi(os.Getenv("SIM_N"))
	if n == 0 {
		n = 40
	}
	var names []string
	for name := range Profiles {
		names = append(names, name)
	}
	sort.Strings(names)
	for _, name := range names {
		for i := 0; i < n; i++ {
			s := uint64(1000 + i)
			plan := Profiles[name].Gen(NewTape(s))
			plan.Seed = s
			res := Execute(t, plan)
			fmt.Printf("HASH %s %d %s %d %d\n", name, s, res.LogHash, len(res.Log), len(res.Violations))
		}
	}
}
