// mkoverlay rewrites every (RW)mutex Lock/RLock/Unlock/RUnlock call of <repo>/storage/memory.go into a call of a
// hook (go/ast), and writes a go build -overlay file that substitutes the rewritten source and adds the hook
// declaration. Nothing is written under the repository.
package main

import (
	"bytes"
	"encoding/json"
	"fmt"
	"go/ast"
	"go/format"
	"go/parser"
	"go/token"
	"os"
	"path/filepath"
)

const hookSrc = `package storage

import "sync"

// SimLockHook, when set, replaces the store's mutex operations: the simulator models lock ownership itself.
var SimLockHook func(mu *sync.RWMutex, name string, op string)

func simLock(mu *sync.RWMutex, name string, op string) {
	if h := SimLockHook; h != nil {
		h(mu, name, op)
		return
	}
	switch op {
	case "Lock":
		mu.Lock()
	case "Unlock":
		mu.Unlock()
	case "RLock":
		mu.RLock()
	case "RUnlock":
		mu.RUnlock()
	}
}
`

func main() {
	repo, out := os.Args[1], os.Args[2]
	src := filepath.Join(repo, "storage", "memory.go")
	fset := token.NewFileSet()
	f, err := parser.ParseFile(fset, src, nil, parser.ParseComments)
	if err != nil {
		fmt.Fprintln(os.Stderr, err)
		os.Exit(2)
	}
	sites := 0
	ast.Inspect(f, func(n ast.Node) bool {
		call, ok := n.(*ast.CallExpr)
		if !ok || len(call.Args) != 0 {
			return true
		}
		sel, ok := call.Fun.(*ast.SelectorExpr)
		if !ok {
			return true
		}
		switch sel.Sel.Name {
		case "Lock", "RLock", "Unlock", "RUnlock":
		default:
			return true
		}
		field, ok := sel.X.(*ast.SelectorExpr)
		if !ok {
			return true
		}
		call.Fun = ast.NewIdent("simLock")
		call.Args = []ast.Expr{
			&ast.UnaryExpr{Op: token.AND, X: field},
			&ast.BasicLit{Kind: token.STRING, Value: fmt.Sprintf("%q", field.Sel.Name)},
			&ast.BasicLit{Kind: token.STRING, Value: fmt.Sprintf("%q", sel.Sel.Name)},
		}
		sites++
		return true
	})
	var buf bytes.Buffer
	if err := format.Node(&buf, fset, f); err != nil {
		fmt.Fprintln(os.Stderr, err)
		os.Exit(2)
	}
	_ = os.MkdirAll(out, 0o755)
	mem := filepath.Join(out, "memory.go")
	hook := filepath.Join(out, "zz_simhook.go")
	_ = os.WriteFile(mem, buf.Bytes(), 0o644)
	_ = os.WriteFile(hook, []byte(hookSrc), 0o644)
	ov := map[string]map[string]string{"Replace": {src: mem, filepath.Join(repo, "storage", "zz_simhook.go"): hook}}
	b, _ := json.MarshalIndent(ov, "", " ")
	_ = os.WriteFile(filepath.Join(out, "overlay.json"), b, 0o644)
	fmt.Printf("lock sites rewritten: %d\n", sites)
}
