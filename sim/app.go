package sim

import (
	"context"
	"encoding/json"
	"html"
	"net/http"
	"net/http/httptest"
	"net/url"
	"regexp"
	"strings"
	"time"

	"github.com/pkg/errors"

	"github.com/ory/fosite"
	"github.com/ory/fosite/handler/openid"
)

// The simulated application: the endpoint glue a fosite user writes, modelled on
// integration/helper_endpoints_test.go and the godoc of each New*/Write* function.  STUB (listed in evidence).

type Resp struct {
	Status     int
	Header     http.Header
	Body       string
	JSON       map[string]interface{}
	Redirect   *url.URL   // parsed Location (without interpretation)
	Query      url.Values // parameters delivered in the Location query
	Fragment   url.Values // parameters delivered in the Location fragment
	FormPost   url.Values // parameters delivered by the form_post page
	FormAction string
	Err        error  // error value returned by fosite (nil on success)
	ErrName    string // RFC error code derived from Err ("" on success)
	Crashed    bool
	Trace      []string // storage calls made by this request
	TokenUse   string   // introspection: kind reported by the IntrospectionResponder
}

// Params returns the response parameters wherever they were delivered.
func (r *Resp) Params() url.Values {
	out := url.Values{}
	for _, v := range []url.Values{r.Query, r.Fragment, r.FormPost} {
		for k, x := range v {
			out[k] = append(out[k], x...)
		}
	}
	return out
}

func (r *Resp) Str(k string) string {
	if r.JSON == nil {
		return ""
	}
	s, _ := r.JSON[k].(string)
	return s
}
func (r *Resp) HasTokens() bool {
	if r.JSON != nil {
		for _, k := range []string{"access_token", "refresh_token", "id_token"} {
			if _, ok := r.JSON[k]; ok {
				return true
			}
		}
	}
	p := r.Params()
	return p.Get("access_token") != "" || p.Get("id_token") != ""
}

func errName(err error) string {
	if err == nil {
		return ""
	}
	var e *fosite.RFC6749Error
	if errors.As(err, &e) {
		return e.ErrorField
	}
	return "non_rfc_error"
}

type Basic struct {
	User, Pass string
	Raw        string
}

func newHTTPRequest(method, path string, query url.Values, form url.Values, basic *Basic, bearer string) *http.Request {
	target := "https://as.sim" + path
	// a caller may put parameters of a POST into the URL's query string instead of the body: form keys "_query:<name>"
	if method == "POST" {
		for k, v := range form {
			if strings.HasPrefix(k, "_query:") {
				if query == nil {
					query = url.Values{}
				}
				query[strings.TrimPrefix(k, "_query:")] = v
				form = cloneValues(form)
				delete(form, k)
			}
		}
	}
	if len(query) > 0 {
		target += "?" + query.Encode()
	}
	var r *http.Request
	if method == "POST" {
		body := ""
		if form != nil {
			body = form.Encode()
		}
		r = httptest.NewRequest(method, target, strings.NewReader(body))
		r.Header.Set("Content-Type", "application/x-www-form-urlencoded")
	} else {
		r = httptest.NewRequest(method, target, nil)
	}
	if basic != nil {
		if basic.Raw != "" {
			r.Header.Set("Authorization", basic.Raw)
		} else {
			r.SetBasicAuth(url.QueryEscape(basic.User), url.QueryEscape(basic.Pass))
		}
	}
	if bearer != "" {
		r.Header.Set("Authorization", "Bearer "+bearer)
	}
	return r
}

var formInputRe = regexp.MustCompile(`<input type="hidden" name="([^"]*)" value="([^"]*)"`)
var formActionRe = regexp.MustCompile(`<form method="post" action="([^"]*)"`)

func finish(rec *httptest.ResponseRecorder, err error, t *TaskCtx) *Resp {
	res := &Resp{Status: rec.Code, Header: rec.Header(), Body: rec.Body.String(), Err: err, ErrName: errName(err)}
	if t != nil {
		res.Trace = t.Trace
	}
	ct := rec.Header().Get("Content-Type")
	if strings.Contains(ct, "json") {
		var m map[string]interface{}
		if json.Unmarshal(rec.Body.Bytes(), &m) == nil {
			res.JSON = m
		}
	}
	if loc := rec.Header().Get("Location"); loc != "" {
		if u, e := url.Parse(loc); e == nil {
			res.Redirect = u
			res.Query = u.Query()
			if u.EscapedFragment() != "" {
				if f, e := url.ParseQuery(u.EscapedFragment()); e == nil {
					res.Fragment = f
				}
			}
		}
	}
	if strings.Contains(ct, "text/html") {
		res.FormPost = url.Values{}
		for _, m := range formInputRe.FindAllStringSubmatch(res.Body, -1) {
			res.FormPost.Add(html.UnescapeString(m[1]), html.UnescapeString(m[2]))
		}
		if m := formActionRe.FindStringSubmatch(res.Body); m != nil {
			res.FormAction = html.UnescapeString(m[1])
		}
	}
	return res
}

// App bundles the world with the executor-facing request entry points.
type App struct {
	W *World
	// device verification page's own table: user-code signature -> device-code signature (the application wrote both into the response)
	userToDevice           map[string]string
	NextTask               int
	pendingConc            *ctask // the concurrent task about to start (tasks are started one at a time)
	FreshSessionOnApproval bool   // set per device_decide step (see DeviceVerify)
}

func NewApp(w *World) *App { return &App{W: w, userToDevice: map[string]string{}} }

func (a *App) task() (*TaskCtx, context.Context) {
	a.NextTask++
	t := &TaskCtx{ID: a.NextTask, Conc: a.pendingConc}
	a.pendingConc = nil
	return t, WithTask(fosite.NewContext(), t)
}

// guard converts a crash sentinel into a Resp{Crashed:true}; real panics propagate.
func guard(t *TaskCtx, f func() *Resp) (res *Resp) {
	defer func() {
		if r := recover(); r != nil {
			if _, ok := r.(crashSentinel); ok {
				res = &Resp{Crashed: true, Trace: t.Trace}
				return
			}
			if PanicIsRequestFailure != nil && PanicIsRequestFailure() {
				// e.g. uuid.New() panics when the entropy source fails: the HTTP server would answer 500
				res = &Resp{Crashed: true, Trace: t.Trace}
				return
			}
			panic(r)
		}
	}()
	return f()
}

// PanicIsRequestFailure is consulted when a request panics: the executor says whether an injected entropy failure explains it.
var PanicIsRequestFailure func() bool

// Consent describes what the simulated resource owner does at the authorization endpoint.
type Consent struct {
	Subject     string
	Deny        bool
	Scopes      []string // nil: grant everything requested
	Audiences   []string // nil: grant every requested audience
	PartialAud  bool     // Audiences is authoritative (may be empty)
	AuthAgo     int64    // seconds before the request at which the user authenticated (auth_time); <0: after request
	NoAuthTime  bool
	PresetIDExp int64 // >0: session pre-sets the ID token expiry this many seconds from now
	PresetIDAud bool  // the session pre-sets an additional ID token audience (a resource server); the client must still be named
	PresetATExp int64 // >0: session pre-sets the access token expiry (honoured by the implicit/hybrid handlers)
	Extra       map[string]interface{}
}

// newSession: the application sets the ID-token "alg" header to the algorithm of its signing key
// (fosite selects the at_hash/c_hash digest from that header).
func (a *App) newSession(subject string) fosite.Session {
	k := a.W.K.IDKey
	if k == "" {
		k = "rsa0"
	}
	if a.W.K.LibSession && !a.W.K.JWTAccess {
		// the library's own session type (openid.DefaultSession) instead of the harness': its Clone / expiry map / claims
		// handling is what most applications run on. (The JWT access-token strategy needs a JWTSessionContainer, which it is not.)
		s := openid.NewDefaultSession()
		s.Subject, s.Username = subject, subject
		s.Claims.Subject = subject
		s.Claims.Extra = map[string]interface{}{}
		s.Headers.Add("alg", AlgFor(k))
		return s
	}
	s := NewSimSession(subject)
	s.Headers.Add("alg", AlgFor(k))
	return s
}

// setSessionSubject: the application learns the subject after the session object was created (password grant, device flow).
func setSessionSubject(sess fosite.Session, subject string) {
	switch s := sess.(type) {
	case *SimSession:
		s.SetSubject(subject)
		s.Username = subject
		s.Claims.Subject = subject
	case *openid.DefaultSession:
		s.Subject, s.Username = subject, subject
		s.Claims.Subject = subject
	}
}

func (a *App) session(c *Consent, now time.Time) fosite.Session {
	sess := a.newSession(c.Subject)
	claims := sess.(openid.Session).IDTokenClaims()
	claims.RequestedAt = now
	if !c.NoAuthTime {
		claims.AuthTime = now.Add(-time.Duration(c.AuthAgo) * time.Second).Truncate(time.Second)
	}
	if c.PresetIDExp > 0 {
		claims.ExpiresAt = now.Add(time.Duration(c.PresetIDExp) * time.Second)
	}
	if c.PresetIDAud {
		claims.Audience = []string{"https://resource.sim/api"}
	}
	if c.PresetATExp > 0 {
		sess.SetExpiresAt(fosite.AccessToken, now.Add(time.Duration(c.PresetATExp)*time.Second))
	}
	if s, ok := sess.(*SimSession); ok {
		for k, v := range c.Extra {
			// extra claims of the session surface at introspection (ExtraClaimsSession); they are not copied into the
			// JWT / ID-token claim sets, where the application would be overriding registered claims on purpose
			s.Extra[k] = v
		}
	}
	return sess
}

// Authorize: GET /auth with the user's consent decision.
func (a *App) Authorize(query url.Values, c *Consent) *Resp {
	t, ctx := a.task()
	return guard(t, func() *Resp {
		p := a.W.Provider
		rec := httptest.NewRecorder()
		r := newHTTPRequest("GET", "/auth", query, nil, nil, "")
		ar, err := p.NewAuthorizeRequest(ctx, r)
		if err != nil {
			p.WriteAuthorizeError(ctx, rec, ar, err)
			return finish(rec, err, t)
		}
		if c.Deny {
			err = fosite.ErrAccessDenied.WithHint("The resource owner denied the request.")
			p.WriteAuthorizeError(ctx, rec, ar, err)
			return finish(rec, err, t)
		}
		for _, s := range ar.GetRequestedScopes() {
			if c.Scopes == nil || has(c.Scopes, s) {
				ar.GrantScope(s)
			}
		}
		for _, aud := range ar.GetRequestedAudience() {
			if !c.PartialAud || has(c.Audiences, aud) {
				ar.GrantAudience(aud)
			}
		}
		resp, err := p.NewAuthorizeResponse(ctx, ar, a.session(c, time.Now().UTC()))
		if err != nil {
			p.WriteAuthorizeError(ctx, rec, ar, err)
			return finish(rec, err, t)
		}
		p.WriteAuthorizeResponse(ctx, rec, ar, resp)
		return finish(rec, nil, t)
	})
}

// Token: POST /token.
func (a *App) Token(form url.Values, basic *Basic) *Resp {
	t, ctx := a.task()
	return guard(t, func() *Resp {
		p := a.W.Provider
		rec := httptest.NewRecorder()
		r := newHTTPRequest("POST", "/token", nil, form, basic, "")
		sess := a.newSession("")
		ar, err := p.NewAccessRequest(ctx, r, sess)
		if err != nil {
			p.WriteAccessError(ctx, rec, ar, err)
			return finish(rec, err, t)
		}
		// client_credentials / password / jwt-bearer: the application decides which requested scopes to grant.
		// It grants what was requested (the handlers already confined the request to the registration).
		if ar.GetGrantTypes().ExactOne("client_credentials") || ar.GetGrantTypes().ExactOne("password") ||
			ar.GetGrantTypes().ExactOne("urn:ietf:params:oauth:grant-type:jwt-bearer") {
			for _, s := range ar.GetRequestedScopes() {
				ar.GrantScope(s)
			}
			for _, aud := range ar.GetRequestedAudience() {
				ar.GrantAudience(aud)
			}
		}
		if ar.GetGrantTypes().ExactOne("client_credentials") {
			if ar.GetSession().GetSubject() == "" {
				setSessionSubject(ar.GetSession(), ar.GetClient().GetID())
			}
		}
		// the application keeps the ID-token subject in step with the session subject (the password handler learns the subject
		// while it authenticates the user and only sets the session's own field)
		if os, ok := ar.GetSession().(openid.Session); ok && os.IDTokenClaims() != nil && os.IDTokenClaims().Subject == "" {
			os.IDTokenClaims().Subject = ar.GetSession().GetSubject()
		}
		resp, err := p.NewAccessResponse(ctx, ar)
		if err != nil {
			p.WriteAccessError(ctx, rec, ar, err)
			return finish(rec, err, t)
		}
		p.WriteAccessResponse(ctx, rec, ar, resp)
		return finish(rec, nil, t)
	})
}

func (a *App) Introspect(form url.Values, basic *Basic, bearer string) *Resp {
	t, ctx := a.task()
	return guard(t, func() *Resp {
		p := a.W.Provider
		rec := httptest.NewRecorder()
		r := newHTTPRequest("POST", "/introspect", nil, form, basic, bearer)
		ir, err := p.NewIntrospectionRequest(ctx, r, a.newSession(""))
		if err != nil {
			p.WriteIntrospectionError(ctx, rec, err)
			return finish(rec, err, t)
		}
		p.WriteIntrospectionResponse(ctx, rec, ir)
		res := finish(rec, nil, t)
		res.TokenUse = string(ir.GetTokenUse())
		return res
	})
}

// IntrospectDirect is the resource-server style check (Fosite.IntrospectToken), used for probing.
func (a *App) IntrospectDirect(token string, use fosite.TokenUse, scopes ...string) (fosite.TokenUse, fosite.AccessRequester, error) {
	_, ctx := a.task()
	return a.W.Provider.IntrospectToken(ctx, token, use, a.newSession(""), scopes...)
}

func (a *App) Revoke(form url.Values, basic *Basic) *Resp {
	t, ctx := a.task()
	return guard(t, func() *Resp {
		p := a.W.Provider
		rec := httptest.NewRecorder()
		r := newHTTPRequest("POST", "/revoke", nil, form, basic, "")
		err := p.NewRevocationRequest(ctx, r)
		p.WriteRevocationResponse(ctx, rec, err)
		return finish(rec, err, t)
	})
}

func (a *App) PAR(form url.Values, basic *Basic) *Resp {
	t, ctx := a.task()
	return guard(t, func() *Resp {
		p := a.W.Provider
		rec := httptest.NewRecorder()
		r := newHTTPRequest("POST", "/par", nil, form, basic, "")
		ar, err := p.NewPushedAuthorizeRequest(ctx, r)
		if err != nil {
			p.WritePushedAuthorizeError(ctx, rec, ar, err)
			return finish(rec, err, t)
		}
		resp, err := p.NewPushedAuthorizeResponse(ctx, ar, a.newSession(""))
		if err != nil {
			p.WritePushedAuthorizeError(ctx, rec, ar, err)
			return finish(rec, err, t)
		}
		p.WritePushedAuthorizeResponse(ctx, rec, ar, resp)
		return finish(rec, nil, t)
	})
}

func (a *App) DeviceAuth(form url.Values, basic *Basic) *Resp {
	t, ctx := a.task()
	return guard(t, func() *Resp {
		p := a.W.Provider
		rec := httptest.NewRecorder()
		r := newHTTPRequest("POST", "/device/auth", nil, form, basic, "")
		dr, err := p.NewDeviceRequest(ctx, r)
		if err != nil {
			p.WriteAccessError(ctx, rec, dr, err)
			return finish(rec, err, t)
		}
		resp, err := p.NewDeviceResponse(ctx, dr, a.newSession(""))
		if err != nil {
			p.WriteAccessError(ctx, rec, dr, err)
			return finish(rec, err, t)
		}
		// the application remembers which user code belongs to which device code (signatures only)
		ds, _ := a.W.Device.DeviceCodeSignature(ctx, resp.GetDeviceCode())
		us, _ := a.W.Device.UserCodeSignature(ctx, resp.GetUserCode())
		a.userToDevice[us] = ds
		p.WriteDeviceResponse(ctx, rec, dr, resp)
		return finish(rec, nil, t)
	})
}

// DeviceVerify is the application's verification page: the user enters the user code and accepts or rejects.
// Returns "" on success or a reason the page refused the code.
// FreshSessionOnApproval: the verification page replaces the session stored at device-authorization time (when the user was
// unknown) with a new one for the user it identified - it carries no device-code expiry of its own.
func (a *App) DeviceVerify(userCode string, accept bool, subject string, grant []string, grantAud []string) string {
	t, ctx := a.task()
	_ = t
	us, err := a.W.Device.UserCodeSignature(ctx, userCode)
	if err != nil {
		return "bad_code"
	}
	req, err := a.W.Store.GetDeviceCodeSession(ctx, us, nil)
	if err != nil {
		return "unknown_code"
	}
	if err := a.W.Device.ValidateUserCode(ctx, req, userCode); err != nil {
		return "expired_code"
	}
	if req.GetUserCodeState() != fosite.UserCodeUnused {
		return "already_decided"
	}
	var stored fosite.DeviceRequester
	err = a.W.Store.UpdateDeviceAuth(ctx, us, func(r fosite.DeviceRequester) {
		if accept {
			r.SetUserCodeState(fosite.UserCodeAccepted)
			for _, s := range r.GetRequestedScopes() {
				if grant == nil || has(grant, s) {
					r.GrantScope(s)
				}
			}
			for _, aud := range r.GetRequestedAudience() {
				if grantAud == nil || has(grantAud, aud) {
					r.GrantAudience(aud)
				}
			}
			if a.FreshSessionOnApproval {
				r.SetSession(a.newSession(subject))
			}
			setSessionSubject(r.GetSession(), subject)
			if os, ok := r.GetSession().(openid.Session); ok {
				os.IDTokenClaims().RequestedAt = r.GetRequestedAt()
				os.IDTokenClaims().AuthTime = time.Now().UTC().Truncate(time.Second)
			}
		} else {
			r.SetUserCodeState(fosite.UserCodeRejected)
		}
		stored = r
	})
	if err != nil {
		return "unknown_code"
	}
	if accept && stored.GetGrantedScopes().Has("openid") {
		if ds, ok := a.userToDevice[us]; ok {
			_ = a.W.Store.CreateOpenIDConnectSession(ctx, ds, stored)
		}
	}
	return ""
}
