package sim

import (
	"fmt"
	"sort"
	"strings"
	"time"
)

// The ledger is a symbolic record of what the harness has OBSERVED (grants, credentials that appeared in
// responses) and of the events the properties give meaning to. It is advanced from observed outcomes plus the
// property text; it never re-implements handler logic.

const Tol = 2 * time.Second // expiry tolerance band: the code rounds expiries to whole seconds

type CredState int

const (
	Live  CredState = iota
	Spent           // legitimately consumed: code redeemed, refresh token rotated, device code exchanged, request_uri used
	Dead            // revoked / killed by replay or reuse detection
)

func (s CredState) String() string { return [...]string{"live", "spent", "dead"}[s] }

type Expectation int

const (
	Unspec  Expectation = iota
	Must                // must be honoured / reported active
	MustNot             // must be refused / reported inactive
)

func (e Expectation) String() string { return [...]string{"unspec", "must", "mustnot"}[e] }

type Grant struct {
	N             int
	Client        string
	Origin        string // code | hybrid | implicit | password | client_credentials | device | jwt_bearer
	Subject       string
	Scopes        []string
	Audience      []string
	Nonce         string
	State         string
	Redirect      string // redirect_uri exactly as sent in the authorization request ("" = not sent)
	Challenge     string
	Method        string
	OpenID        bool
	ViaPAR        bool
	Creds         []*Cred
	Unspec        bool // a fault made the grant's server-side state unknowable
	Vague         bool // the statements do not pin down WHAT was granted (parameters added to a pushed request, ...): binding rules are not judged either
	AuthTime      time.Time
	ReqAt         time.Time
	PresetIDExp   time.Time
	FailedRedeems int
	FailedPKCE    int
	Faulted       bool              // a storage fault hit a request of this grant
	Params        map[string]string // other request parameters that matter (max_age, prompt, response_type...)
}

type Cred struct {
	N         int
	Kind      string // code | at | rt | id | dc | uc | par
	Val       string
	G         *Grant
	Gen       int
	Issued    time.Time
	Life      time.Duration // expected lifetime from configuration + documentation; 0 unknown; -1 unlimited
	Endpoint  string        // token | authorize | device | par
	Delivered bool
	State     CredState
	Why       []string // property tags explaining why it is not live
	Pair      *Cred
	Unspec    bool
	ExpiresIn time.Duration // advertised
	Client    string        // for creds without a grant (par)
	Extra     map[string]string
}

func (c *Cred) Name() string { return fmt.Sprintf("%s#%d", c.Kind, c.N) }

type Ledger struct {
	Grants             []*Grant
	Creds              []*Cred
	ByVal              map[string]*Cred
	K                  *Knobs
	ShortCurrentSecret bool // see Expect
}

func NewLedger(k *Knobs) *Ledger { return &Ledger{ByVal: map[string]*Cred{}, K: k} }

func (l *Ledger) NewGrant(g *Grant) *Grant {
	g.N = len(l.Grants)
	l.Grants = append(l.Grants, g)
	return g
}

func (l *Ledger) AddCred(c *Cred) *Cred {
	c.N = len(l.Creds)
	l.Creds = append(l.Creds, c)
	if c.Val != "" {
		l.ByVal[c.Val] = c
	}
	if c.G != nil {
		c.G.Creds = append(c.G.Creds, c)
	}
	return c
}

func (l *Ledger) OfKind(kinds ...string) []*Cred {
	var out []*Cred
	for _, c := range l.Creds {
		for _, k := range kinds {
			if c.Kind == k {
				out = append(out, c)
			}
		}
	}
	return out
}

// Select resolves a symbolic selector: the sel-th credential of the given kinds, modulo how many exist.
func (l *Ledger) Select(sel int, kinds ...string) *Cred {
	cs := l.OfKind(kinds...)
	if len(cs) == 0 {
		return nil
	}
	if sel < 0 {
		sel = -sel
	}
	return cs[sel%len(cs)]
}

// SelectFromEnd: the sel-th newest credential of the given kinds.
func (l *Ledger) SelectFromEnd(sel int, kinds ...string) *Cred {
	cs := l.OfKind(kinds...)
	if len(cs) == 0 {
		return nil
	}
	if sel < 0 {
		sel = -sel - 1
	}
	return cs[len(cs)-1-sel%len(cs)]
}

// Expect answers: at instant now, must this credential be honoured, must it be refused, or is it unspecified?
func (l *Ledger) Expect(c *Cred, now time.Time) (Expectation, []string) {
	if l.ShortCurrentSecret && strings.Count(c.Val, ".") == 1 && (c.Kind == "at" || c.Kind == "rt" || c.Kind == "code") {
		// the configured global secret is shorter than 32 bytes: it is refused, and with it every validation of an opaque
		// credential (the current secret is the first one tried) - until the operator configures a proper one again
		return MustNot, []string{"C06"}
	}
	if c.Unspec || (c.G != nil && c.G.Unspec) {
		// what faults or unspecified interactions did to the server-side state is unknowable - but nothing makes a credential
		// outlive the lifetime it was issued with (C07 holds at every point of every history)
		if c.Life > 0 && now.Sub(c.Issued) >= c.Life+Tol && (c.G == nil || !c.G.Vague) {
			return MustNot, []string{"C07"}
		}
		return Unspec, nil
	}
	if c.State != Live {
		return MustNot, c.Why
	}
	switch {
	case c.Life < 0:
		return Must, nil
	case c.Life == 0:
		return Unspec, nil
	}
	age := now.Sub(c.Issued)
	if age >= c.Life+Tol {
		return MustNot, []string{"C07"}
	}
	if age <= c.Life-Tol {
		return Must, nil
	}
	return Unspec, nil
}

func (l *Ledger) Kill(c *Cred, st CredState, why ...string) {
	if c.State == Live {
		c.State = st
	}
	c.Why = appendUniq(c.Why, why...)
}

// KillFamily: every credential the token endpoint issued for the grant becomes dead; credentials the
// authorization endpoint delivered directly (hybrid/implicit access tokens) are outside the statements => unspecified.
func (l *Ledger) KillFamily(g *Grant, why ...string) {
	for _, c := range g.Creds {
		switch c.Kind {
		case "at", "rt":
			if c.Endpoint == "token" {
				l.Kill(c, Dead, why...)
			} else {
				c.Unspec = true
			}
		}
	}
}

func appendUniq(xs []string, ys ...string) []string {
	for _, y := range ys {
		found := false
		for _, x := range xs {
			if x == y {
				found = true
			}
		}
		if !found {
			xs = append(xs, y)
		}
	}
	return xs
}

func sortedCopy(xs []string) []string {
	o := append([]string{}, xs...)
	sort.Strings(o)
	return o
}

func sameSet(a, b []string) bool {
	x, y := sortedCopy(a), sortedCopy(b)
	if len(x) != len(y) {
		return false
	}
	for i := range x {
		if x[i] != y[i] {
			return false
		}
	}
	return true
}

func has(xs []string, s string) bool {
	for _, x := range xs {
		if x == s {
			return true
		}
	}
	return false
}

func hasOneOf(xs []string, ys []string) bool {
	for _, y := range ys {
		if has(xs, y) {
			return true
		}
	}
	return false
}

// AbstractState is the multiset of (kind, state) per grant: a coarse measure of distinct server states reached.
func (l *Ledger) AbstractState() string {
	var gs []string
	for _, g := range l.Grants {
		var cs []string
		for _, c := range g.Creds {
			cs = append(cs, c.Kind+":"+c.State.String())
		}
		sort.Strings(cs)
		gs = append(gs, g.Origin+"["+strings.Join(cs, ",")+"]")
	}
	sort.Strings(gs)
	return strings.Join(gs, ";")
}

// ---------------------------------------------------------------------------
// Violations

type Violation struct {
	Prop   string `json:"property"`
	Rule   string `json:"rule"`
	Key    string `json:"key,omitempty"` // discriminator inside a rule (call site, credential kind...)
	Detail string `json:"detail"`
	Step   int    `json:"step"`
}

func (v Violation) Sig() string {
	s := v.Prop + "/" + v.Rule
	if v.Key != "" {
		s += "/" + v.Key
	}
	return s
}

func sortStrings(xs []string) { sort.Strings(xs) }
