package sim

import (
	"fmt"
	"strings"
	"time"

	"github.com/ory/fosite"
)

// ---------------------------------------------------------------------------
// C11: redirect targets

var c11RegisteredSets = [][]string{
	{"https://app.sim/cb"},
	{"https://app.sim/cb", "https://app.sim/cb2"},
	{"http://127.0.0.1/cb"},
	{"http://127.0.0.1:7000/cb", "https://app.sim/cb"},
	{"http://[::1]/cb?x=1"},
	{"http://localhost/cb"},
	{"https://app.sim/cb?fixed=1"},
	{"https://app.sim/path/cb", "http://127.0.0.1/path/cb"},
	{"com.example.app:/cb", "https://app.sim/cb"},
	{"http://app.sim/cb"},
	{"https://app.sim/cb#frag"},
	{"/callback"},                          // a registration that is not an absolute URI can never be a redirect target
	{"//app.sim/cb", "https://app.sim/cb"}, // protocol-relative
	{"/callback?tenant=1", "https://app.sim/cb"},
}

// nearMiss derives a requested redirect_uri from a registered one.
func nearMiss(t *Tape, reg string) string {
	switch t.Intn(30) {
	case 26: // another scheme on the same (loopback) host
		return strings.Replace(reg, "http://", "evilapp://", 1)
	case 27:
		return strings.Replace(strings.Replace(reg, "http://", "https://", 1), "127.0.0.1/", "127.0.0.1:8443/", 1)
	case 28:
		return strings.Replace(reg, "http://", "com.example.other://", 1)
	case 29:
		return strings.Replace(reg, "https://", "ftp://", 1)
	case 0, 1, 2, 3:
		return reg
	case 4:
		return strings.Replace(reg, "app.sim", "APP.sim", 1)
	case 5:
		return reencode(reg)
	case 6:
		return strings.Replace(reg, "://", "://user@", 1)
	case 7:
		return strings.Replace(strings.Replace(reg, "app.sim/", "app.sim:8443/", 1), "127.0.0.1/", "127.0.0.1:9999/", 1)
	case 8:
		return strings.Replace(reg, "127.0.0.1", "127.0.0.2", 1)
	case 9:
		return strings.Replace(reg, "127.0.0.1", "localhost", 1)
	case 10:
		return reg + "/extra"
	case 11:
		return reg + "?added=1"
	case 12:
		return reg + "#fragment"
	case 13:
		return "/cb"
	case 14:
		return strings.Replace(reg, "://", ":", 1)
	case 15:
		return strings.Replace(reg, "https://", "http://", 1)
	case 16:
		return reg + "/"
	case 17:
		return strings.Replace(reg, "app.sim", "app.sim.evil.example", 1)
	case 18:
		return strings.Replace(reg, "127.0.0.1", "127.0.0.1.evil.example", 1)
	case 19:
		return strings.Replace(reg, "127.0.0.1", "127.1", 1)
	case 20:
		return ""
	case 21:
		return strings.Replace(reg, "/cb", "/CB", 1)
	case 22:
		return strings.Replace(reg, "127.0.0.1/", "127.0.0.1:1234/", 1)
	case 23:
		return strings.Replace(reg, "[::1]/", "[::1]:4321/", 1)
	case 24:
		return strings.Replace(reg, "x=1", "x=2", 1)
	case 25:
		return "https://evil.example/cb"
	}
	return reg
}

func init() {
	reg(&Profile{Name: "c11", Prop: "C11", Gen: func(t *Tape) *Plan {
		k := swarmKnobs(t)
		k.Store = "plain"
		k.Debug = t.Chance(30)
		k.AllowInsecureRedirect = t.Chance(10)
		for i := range k.Clients {
			k.Clients[i].RedirectURIs = append([]string{}, c11RegisteredSets[t.Intn(len(c11RegisteredSets))]...)
		}
		nc := len(k.Clients)
		var steps []Step
		n := t.Range(10, 34)
		for len(steps) < n {
			c := t.Intn(nc)
			regs := k.Clients[c].RedirectURIs
			req := nearMiss(t, regs[t.Intn(len(regs))])
			if req == "" {
				req = "omit"
			}
			switch t.Weighted([]int{60, 14, 10, 8, 8}) {
			case 0:
				s := st("authz", c, 0, "redirect", req, "scope", pickScopes(t, 30, 40), "rt", t.Pick([]string{"code", "code", "code", "token", "code id_token", "id_token token"}), "nonce", fmt.Sprintf("nonce-%d-abcdefgh", len(steps)))
				if strings.Contains(s.P["rt"], "id_token") {
					s.P["scope"] = "openid " + s.P["scope"]
				}
				if t.Chance(35) {
					s.P["mode"] = t.Pick([]string{"query", "fragment", "form_post", SimResponseMode})
				}
				switch t.Intn(8) { // errors raised AFTER redirect validation
				case 0:
					s.P["scope"] = "not-allowed-scope " + s.P["scope"]
				case 1:
					s.P["deny"] = "1"
				case 2:
					s.P["state"] = "short"
				case 3:
					s.F = &FaultSpec{Kind: "store-err", At: t.Intn(5)}
				case 4:
					s.P["aud"] = "https://not-allowed.example"
				}
				steps = append(steps, s)
			case 1:
				s := st("par_push", c, 0, "redirect", req, "scope", pickScopes(t, 20, 40))
				if t.Chance(45) {
					// the pushed-authorization endpoint applies the secure-redirect rule to every response type, not only to "code"
					s.P["rt"] = t.Pick([]string{"token", "code id_token", "id_token token", "code token", "id_token", "code id_token token"})
					s.P["nonce"] = fmt.Sprintf("nonce-%d-abcdefgh", len(steps))
					if strings.Contains(s.P["rt"], "id_token") {
						s.P["scope"] = "openid " + s.P["scope"]
					}
				}
				if t.Chance(30) {
					s.P["mode"] = t.Pick([]string{"query", "fragment", "form_post", SimResponseMode})
				}
				steps = append(steps, s)
			case 2:
				steps = append(steps, Step{Op: "authz_par", C: -1, G: t.Intn(6), P: map[string]string{"x_redirect": t.Pick([]string{"", "", "https://evil.example/cb", "reg:1"})}})
			case 3:
				steps = append(steps, Step{Op: "redeem", C: -1, G: t.Intn(10)})
			case 4:
				steps = append(steps, Step{Op: "hostile", C: c, V: "authorize", D: int64(t.Intn(len(hostile))), P: map[string]string{"what": t.Pick([]string{"redirect", "state", "scope", "rt", "mode"}), "mode": t.Pick([]string{"", "form_post", "fragment", SimResponseMode})}})
			}
		}
		return &Plan{Profile: "c11", Prop: "C11", K: k, Steps: steps}
	}})
	regProp(&PropSpec{ID: "C11", Profiles: []string{"c11"}, Characteristic: []string{"authz-redirect:", "authz-direct-error"}})
}

// ---------------------------------------------------------------------------
// C12: matcher differential + confinement

func init() {
	extraOps["match_probe"] = (*Run).opMatchProbe
}

func (r *Run) opMatchProbe(st Step) {
	kind, strategy := st.p("kind"), st.p("strategy")
	hay := strings.Split(st.p("hay"), "|")
	if st.p("hay") == "" {
		hay = nil
	}
	needle := st.p("needle")
	if kind == "scope" {
		var f fosite.ScopeStrategy
		switch strategy {
		case "exact":
			f = fosite.ExactScopeStrategy
		case "hierarchic":
			f = fosite.HierarchicScopeStrategy
		default:
			f = fosite.WildcardScopeStrategy
		}
		got := f(hay, needle)
		want := RefScopeMatch(strategy, hay, needle)
		r.probe("matcher:scope:" + strategy + ":" + want.String())
		if want == Open {
			return
		}
		if got != (want == Yes) {
			r.violate("C12", "scope-strategy-disagrees-with-documentation", strategy, "%s strategy: haystack %q needle %q decided %v, the documented rule says %v", orDefault(strategy, "wildcard"), hay, needle, got, want)
		}
		r.logf("match_probe scope/%s %q ~ %q -> %v (ref %v)", strategy, hay, needle, got, want)
		return
	}
	var f fosite.AudienceMatchingStrategy
	if strategy == "exact" {
		f = fosite.ExactAudienceMatchingStrategy
	} else {
		f = fosite.DefaultAudienceMatchingStrategy
	}
	got := f(hay, []string{needle}) == nil
	want := RefAudienceMatch(strategy, hay, needle)
	r.probe("matcher:aud:" + strategy + ":" + want.String())
	if want == Open {
		return
	}
	if got != (want == Yes) {
		r.violate("C12", "audience-strategy-disagrees-with-documentation", strategy, "%s audience strategy: allowed %q requested %q decided %v, the documented rule says %v", orDefault(strategy, "default"), hay, needle, got, want)
	}
	r.logf("match_probe aud/%s %q ~ %q -> %v (ref %v)", strategy, hay, needle, got, want)
}

func orDefault(s, d string) string {
	if s == "" {
		return d
	}
	return s
}

var segAlphabet = []string{"a", "b", "users", "read", "*", "*", "", "own", "A", "Users", "READ"} // scope tokens are case-sensitive (RFC 6749 3.3)

func genScope(t *Tape, maxSeg int) string {
	n := t.Range(1, maxSeg)
	var parts []string
	for i := 0; i < n; i++ {
		parts = append(parts, t.Pick(segAlphabet))
	}
	return strings.Join(parts, ".")
}

func genAudience(t *Tape) string {
	return t.Pick([]string{"https", "https", "http"}) + "://" + t.Pick([]string{"api.sim", "api.sim", "API.sim", "api.sim:8443", "api.sim.evil.example"}) +
		t.Pick([]string{"", "/", "/v1", "/v1/", "/v1/x", "/v1x", "/v", "/v1/x/y", "//v1", "/v1//x"})
}

func init() {
	reg(&Profile{Name: "c12", Prop: "C12", Gen: func(t *Tape) *Plan {
		k := swarmKnobs(t)
		k.Store = "plain"
		k.BearerKeys = bearerKeys()
		k.ScopeStrategy = t.Pick([]string{"", "wildcard", "exact", "hierarchic"})
		k.AudStrategy = t.Pick([]string{"", "default", "exact"})
		k.RefreshScopesSet, k.RefreshScopes = true, []string{}
		// registrations expressed in the configured strategy's vocabulary
		for i := range k.Clients {
			k.Clients[i].Scopes = []string{"openid", "offline", "photos", "users.*", "mail.read", "files", "a.*.c"}
			k.Clients[i].Audience = []string{"https://api.sim/v1", "https://files.sim/"}
		}
		if t.Chance(40) {
			k.Clients[t.Intn(len(k.Clients))].Audience = nil // a registration without any audience: nothing may be requested
		}
		nc := len(k.Clients)
		scopes := []string{"photos", "users.read", "users.read.own", "users", "mail", "mail.read", "mail.read.all", "files.x", "admin", "a.b.c", "a.b.d", "a..c", "users.", "openid", "offline", "*", "PHOTOS", "Mail.Read", "Files", "users.READ"}
		auds := []string{"https://api.sim/v1", "https://api.sim/v1/", "https://api.sim/v1/things", "https://api.sim/v1x", "https://api.sim/", "https://files.sim", "https://files.sim/deep/er", "http://api.sim/v1", "https://API.sim/v1", "https://evil.example", "https://api.sim:8443/v1"}
		pick := func(pool []string, n int) string {
			var out []string
			for i := 0; i < n; i++ {
				out = append(out, t.Pick(pool))
			}
			return strings.Join(out, " ")
		}
		var steps []Step
		n := t.Range(14, 44)
		for len(steps) < n {
			c := t.Intn(nc)
			sc, au := pick(scopes, t.Range(1, 3)), ""
			if t.Chance(50) {
				au = pick(auds, t.Range(1, 2))
			}
			switch t.Weighted([]int{30, 10, 5, 5, 6, 6, 6, 5, 4, 8, 6, 3, 3}) {
			case 0: // pure matcher differential (no schedule / clock / fault in it: labelled as seeded sampling)
				if t.Chance(60) {
					var hay []string
					for i := 0; i < t.Range(1, 3); i++ {
						hay = append(hay, genScope(t, 4))
					}
					steps = append(steps, st("match_probe", 0, 0, "kind", "scope", "strategy", t.Pick([]string{"", "exact", "hierarchic"}), "hay", strings.Join(hay, "|"), "needle", genScope(t, 5)))
				} else {
					var hay []string
					for i := 0; i < t.Range(1, 2); i++ {
						hay = append(hay, genAudience(t))
					}
					steps = append(steps, st("match_probe", 0, 0, "kind", "aud", "strategy", t.Pick([]string{"", "exact"}), "hay", strings.Join(hay, "|"), "needle", genAudience(t)))
				}
			case 1:
				steps = append(steps, st("authz", c, 0, "scope", sc, "aud", au))
			case 2:
				steps = append(steps, st("authz", c, 0, "rt", "token", "scope", sc, "aud", au))
			case 3:
				steps = append(steps, st("authz", c, 0, "rt", t.Pick([]string{"code id_token token", "code id_token", "id_token token", "id_token"}), "scope", "openid "+sc, "aud", au, "nonce", fmt.Sprintf("nonce-%d-abcdefgh", len(steps))))
			case 4:
				steps = append(steps, st("client_credentials", c, 0, "scope", sc, "aud", au))
			case 5:
				steps = append(steps, st("password", c, 0, "scope", sc, "aud", au))
			case 6:
				dec := Step{Op: "device_decide", V: "accept", P: map[string]string{"latest": "1"}}
				if t.Chance(45) { // the resource owner consents to a part of the requested scopes / audiences only
					dec.P["grant_first"] = fmt.Sprint(t.Intn(3))
					dec.P["aud_first"] = fmt.Sprint(t.Intn(3))
				}
				steps = append(steps, st("device_authz", c, 0, "scope", sc, "aud", au), dec, Step{Op: "device_token", C: -1, P: map[string]string{"latest": "1"}})
				if t.Chance(40) {
					steps = append(steps, Step{Op: "refresh", C: -1, V: "latest"})
				}
			case 7:
				steps = append(steps, st("par_push", c, 0, "scope", sc, "aud", au), Step{Op: "authz_par", C: -1, G: 60})
			case 8:
				steps = append(steps, Step{Op: "bearer_assert", C: t.Intn(2), D: int64(t.Intn(3)), V: t.Pick([]string{"ok", "scope_outside", "scope_client_only", "scope_client_only", "no_scope", "scope_wild_ok"})})
			case 9:
				steps = append(steps, Step{Op: "redeem", C: -1, G: t.Intn(12), P: map[string]string{"scope": pick(scopes, 2), "audience": t.Pick(auds)}})
			case 10:
				steps = append(steps, Step{Op: "refresh", C: -1, G: t.Intn(12), V: "latest", P: map[string]string{"scope": pick(scopes, 2), "audience": t.Pick(auds)}})
			case 11:
				steps = append(steps, Step{Op: "client_change", C: c, V: t.Pick([]string{"drop_scope:photos", "drop_scope:users.*", "drop_aud:https://api.sim/v1", "drop_scope:mail.read"}), P: map[string]string{"how": t.Pick([]string{"inplace", "replace"})}})
			case 12:
				steps = append(steps, Step{Op: "introspect", C: t.Intn(2), G: t.Intn(30), P: map[string]string{"scope": pick(scopes, 1)}})
			}
		}
		return &Plan{Profile: "c12", Prop: "C12", K: k, Steps: steps}
	}})
	regProp(&PropSpec{ID: "C12", Profiles: []string{"c12"}, Characteristic: []string{"matcher:", "confine:"}})
}

// ---------------------------------------------------------------------------
// C13: authorization request validation; request objects over the simulated network

func c13Clients(t *Tape) []ClientSpec {
	scopes := []string{"openid", "offline", "photos", "mail.read"}
	rtSets := [][]string{{"code"}, {"code", "token"}, {"id_token", "id_token token"}, {"code id_token", "code token", "code id_token token"}, allResponseTypes, {"token code"}, {}}
	modeSets := [][]string{nil, {"query"}, {"fragment", "form_post"}, {"query", "fragment", "form_post"}}
	grantSets := [][]string{{"authorization_code", "refresh_token"}, {"implicit"}, {"authorization_code", "implicit", "refresh_token"}, {"client_credentials"}, {}}
	var out []ClientSpec
	for i := 0; i < 4; i++ {
		c := ClientSpec{ID: fmt.Sprintf("c13-%d", i), Secret: fmt.Sprintf("c13-secret-%d", i), RedirectURIs: []string{fmt.Sprintf("https://c13-%d.sim/cb", i)},
			ResponseTypes: rtSets[t.Intn(len(rtSets))], ResponseModes: modeSets[t.Intn(len(modeSets))], GrantTypes: grantSets[t.Intn(len(grantSets))], Scopes: scopes, Audience: []string{"https://api.sim/v1"}}
		if i == 3 {
			c.Public, c.Secret = true, ""
		}
		out = append(out, c)
	}
	// OIDC clients able to send request objects
	out = append(out,
		ClientSpec{ID: "ro-rs256", Secret: "ro-rs256-secret", OIDC: true, AuthMethod: "client_secret_basic", KeyName: "rsa2", RequestObjAlg: "RS256", RedirectURIs: []string{"https://ro-a.sim/cb"},
			ResponseTypes: allResponseTypes, ResponseModes: []string{"query", "fragment", "form_post"}, GrantTypes: []string{"authorization_code", "implicit", "refresh_token"}, Scopes: scopes,
			RequestURIs: []string{"https://ro-a.sim/request.jwt"}},
		ClientSpec{ID: "ro-none", Secret: "ro-none-secret", OIDC: true, AuthMethod: "client_secret_basic", KeyName: "rsa1", RequestObjAlg: "none", RedirectURIs: []string{"https://ro-b.sim/cb"},
			ResponseTypes: allResponseTypes, ResponseModes: []string{"query", "fragment", "form_post"}, GrantTypes: []string{"authorization_code", "implicit", "refresh_token"}, Scopes: scopes},
		ClientSpec{ID: "ro-es256-uri", Secret: "ro-es-secret", OIDC: true, AuthMethod: "client_secret_basic", KeyName: "ec_p256_0", JWKSURI: "https://ro-c.sim/jwks.json", RequestObjAlg: "ES256", RedirectURIs: []string{"https://ro-c.sim/cb"},
			ResponseTypes: allResponseTypes, ResponseModes: []string{"query", "fragment", "form_post"}, GrantTypes: []string{"authorization_code", "implicit", "refresh_token"}, Scopes: scopes,
			RequestURIs: []string{"https://ro-c.sim/request.jwt"}},
	)
	return out
}

func init() {
	reg(&Profile{Name: "c13", Prop: "C13", Gen: func(t *Tape) *Plan {
		k := Knobs{Clients: c13Clients(t), Users: map[string]string{"peter": "peters-password"}, Store: "plain"}
		k.JWTAccess = t.Chance(30)
		if t.Chance(30) {
			enableCustomMode(t, &k)
		}
		if t.Chance(40) {
			k.MinParamEntropy = t.Range(4, 16)
		}
		minE := 8
		if k.MinParamEntropy != 0 {
			minE = k.MinParamEntropy
		}
		nc := len(k.Clients)
		rts := []string{"code", "token", "id_token", "id_token token", "token id_token", "code id_token", "id_token code", "code token", "token code", "code id_token token", "token id_token code", "code code", "", "bogus", "code bogus", "code CODE", "id_token ID_TOKEN", "CODE", "code Token", "code id_token CODE"}
		str := func(n int) string { return strings.Repeat("s", n) }
		var steps []Step
		n := t.Range(12, 40)
		for len(steps) < n {
			c := t.Intn(nc)
			s := st("authz", c, 0, "rt", t.Pick(rts), "scope", pickScopes(t, 55, 40))
			switch t.Intn(4) {
			case 0:
				s.P["state"] = str(minE - 1)
			case 1:
				s.P["state"] = str(minE)
			case 2:
				s.P["state"] = "omit"
			}
			switch t.Intn(4) {
			case 0:
				s.P["nonce"] = str(minE - 1)
			case 1:
				s.P["nonce"] = str(minE)
			case 2:
				s.P["nonce"] = str(minE + 5)
			}
			if t.Chance(40) {
				s.P["mode"] = t.Pick([]string{"query", "fragment", "form_post", "bogus_mode", SimResponseMode})
			}
			if t.Chance(15) {
				s.P["redirect"] = "omit"
			}
			if c >= 4 && t.Chance(65) {
				s.P["ro"] = t.Pick([]string{"ok", "ok", "foreign_key", "wrong_alg", "none", "via_uri", "via_uri", "via_uri_unregistered", "via_uri_case", "via_uri_hostcase", "via_uri_query", "both", "expired"})
				s.P["scope"] = "openid " + s.P["scope"]
				if strings.HasPrefix(s.P["ro"], "via_uri") && t.Chance(50) {
					s.P["net"] = t.Pick([]string{"drop", "5xx", "garbage", "delay"})
				}
				if k.Clients[c].JWKSURI != "" && t.Chance(35) {
					s.P["net_jwks"] = t.Pick([]string{"drop", "5xx", "delay", "stale"})
				}
			}
			if t.Chance(10) {
				s.F = &FaultSpec{Kind: "store-err", At: t.Intn(5)}
			}
			steps = append(steps, s)
			if t.Chance(30) {
				steps = append(steps, Step{Op: "redeem", C: -1, G: t.Intn(12)})
			}
			if t.Chance(6) {
				steps = append(steps, Step{Op: "redeem", C: t.Intn(nc), G: t.Intn(12)})
			}
		}
		return &Plan{Profile: "c13", Prop: "C13", K: k, Steps: steps}
	}})
	regProp(&PropSpec{ID: "C13", Profiles: []string{"c13", "c13", "c13par"}, Characteristic: []string{"authz-redirect:", "authz-direct-error", "request-object:"}})
}

// requestObject builds the OIDC request object for an authz step; returns the compact JWT, the state it carries and the verdict.
func (r *Run) requestObject(st Step, cs *ClientSpec, base map[string]string) (string, string, Expectation) {
	variant := st.p("ro")
	roState := fmt.Sprintf("ro-state-%04d-abcdefghijkl", r.Idx)
	claims := map[string]interface{}{"iss": cs.ID, "aud": IssuerURL, "client_id": cs.ID, "state": roState}
	for k, v := range base {
		if v != "" && k != "state" {
			claims[k] = v
		}
	}
	alg := cs.RequestObjAlg
	keyName := cs.KeyName
	kid := "kid-" + cs.KeyName
	verdict := Must
	switch variant {
	case "foreign_key":
		keyName, verdict = "rsa3", MustNot
		if strings.HasPrefix(cs.KeyName, "ec_") {
			keyName = "ec_p256_1"
		}
		if alg == "none" {
			verdict = Must // the registration permits unsigned objects: there is no key to be foreign
		}
	case "wrong_alg":
		verdict = MustNot
		switch alg {
		case "RS256":
			alg = "RS384"
		case "ES256":
			// a P-256 key cannot sign another ES algorithm: present an RSA-signed object instead
			alg, keyName = "RS256", "rsa3"
		case "none":
			alg, verdict = "RS256", MustNot // registration permits only unsigned objects
		}
	case "none":
		if alg != "none" {
			verdict = MustNot
		}
		alg = "none"
	case "expired":
		claims["exp"] = r.now().Add(-time.Minute).Unix()
		verdict = MustNot
	}
	if alg == "" {
		alg = AlgFor(keyName)
	}
	return SignJWT(keyName, alg, kid, claims, nil), roState, verdict
}

// ---------------------------------------------------------------------------
// C14: ID tokens

func init() {
	reg(&Profile{Name: "c14", Prop: "C14", Gen: func(t *Tape) *Plan {
		k := swarmKnobs(t)
		k.Store = t.Pick([]string{"plain", "plain", "tx"})
		k.IDKey = t.Pick([]string{"", "rsa1", "ec_p256_0", "ec_p384_0", "ec_p521_0", "ec_p384_1", "ec_p521_1"})
		k.RefreshScopesSet, k.RefreshScopes = true, []string{}
		if t.Chance(40) {
			k.MinParamEntropy = t.Range(6, 14)
		}
		if t.Chance(40) {
			k.Clients[0].Lifespans = map[string]int64{t.Pick([]string{"authorization_code:id_token", "implicit:id_token", "refresh_token:id_token"}): int64(t.Range(30, 4000))}
		}
		nc := len(k.Clients)
		flows := []string{"code", "code", "id_token", "id_token token", "code id_token", "code token", "code id_token token"}
		var steps []Step
		n := t.Range(12, 40)
		for len(steps) < n {
			switch t.Weighted([]int{40, 22, 14, 8, 8, 8, 8}) {
			case 6:
				// the same OpenID Connect request, pushed first: nonce, response type and scope travel through the PAR session
				ps := st("par_push", t.Intn(nc), 0, "rt", t.Pick(flows), "nonce", fmt.Sprintf("nonce-%d-abcdefghijkl", len(steps)), "scope", pickScopes(t, 85, 60))
				if t.Chance(25) {
					ps.P["mode"] = t.Pick([]string{"fragment", "form_post", SimResponseMode})
				}
				use := Step{Op: "authz_par", C: -1, P: map[string]string{"latest": "1", "sub": t.Pick([]string{"user-A", "user-B"})}}
				if t.Chance(20) {
					use.P["x_nonce"] = "attacker-nonce-abcdefgh"
				}
				steps = append(steps, ps, use)
				if t.Chance(60) {
					steps = append(steps, Step{Op: "redeem", C: -1, V: "latest"})
				}
			case 0:
				s := st("authz", t.Intn(nc), 0, "rt", t.Pick(flows), "nonce", fmt.Sprintf("nonce-%d-abcdefghijkl", len(steps)), "sub", t.Pick([]string{"user-A", "user-A", "user-B"}))
				s.P["scope"] = pickScopes(t, 85, 60)
				if t.Chance(14) {
					// the resource owner grants only part of the request - possibly everything but openid
					var keep []string
					for _, x := range splitNonEmpty(s.P["scope"]) {
						if x != "openid" || t.Chance(30) {
							keep = append(keep, x)
						}
					}
					if len(keep) == 0 {
						keep = []string{"none-of-the-requested"}
					}
					s.P["grant"] = strings.Join(keep, " ")
				}
				if t.Chance(12) {
					s.P["nonce"] = ""
				}
				if t.Chance(45) {
					s.P["auth_ago"] = t.Pick([]string{"-30", "-5", "5", "30", "3000"})
				}
				if t.Chance(30) {
					s.P["max_age"] = t.Pick([]string{"1", "10", "60", "3600"})
				}
				if t.Chance(30) {
					s.P["prompt"] = t.Pick([]string{"none", "login", "consent", "login consent", "consent login", "select_account login"})
				}
				if t.Chance(20) {
					s.P["hint"] = t.Pick([]string{"same", "other"})
				}
				if t.Chance(10) {
					s.P["preset_id_exp"] = fmt.Sprint(t.Range(30, 90000))
				}
				if t.Chance(12) {
					s.P["preset_id_aud"] = "1" // the session names a resource server as an additional ID-token audience
				}
				if t.Chance(6) {
					s.P["empty_sub"] = "1"
				}
				if t.Chance(8) {
					s.P["no_auth_time"] = "1"
				}
				if t.Chance(25) {
					s.P["mode"] = t.Pick([]string{"fragment", "form_post", SimResponseMode})
				}
				steps = append(steps, s)
			case 1:
				steps = append(steps, Step{Op: "redeem", C: -1, G: t.Intn(16)})
			case 2:
				steps = append(steps, Step{Op: "refresh", C: -1, G: t.Intn(6), V: "latest"})
			case 3:
				switch t.Intn(3) {
				case 0:
					steps = append(steps, st("device_authz", t.Intn(nc), 0, "scope", "openid "+pickScopes(t, 0, 50)))
				case 1:
					steps = append(steps, Step{Op: "device_decide", G: t.Intn(6), V: "accept", P: map[string]string{"sub": t.Pick([]string{"user-D", "user-A"})}})
				default:
					steps = append(steps, Step{Op: "device_token", C: -1, G: t.Intn(6)})
				}
			case 4:
				steps = append(steps, advance(t))
			case 5:
				steps = append(steps, st("password", t.Intn(2), 0, "scope", "openid "+pickScopes(t, 0, 50)))
			}
		}
		return &Plan{Profile: "c14", Prop: "C14", K: k, Steps: steps}
	}})
	regProp(&PropSpec{ID: "C14", Profiles: []string{"c14"}, Characteristic: []string{"idtoken-"}})
}
