package sim

import (
	"net/url"
	"strings"
)

// Independent reference matchers written from the property statement and the README examples.
// Three-valued: cases the documentation leaves open are Open and can never raise an alarm.

type Tri int

const (
	No Tri = iota
	Yes
	Open
)

func (t Tri) String() string { return [...]string{"no", "yes", "open"}[t] }

func anyEmpty(parts []string) bool {
	for _, p := range parts {
		if p == "" {
			return true
		}
	}
	return false
}

// refWildcardOne: does one matcher cover the needle under the documented wildcard rules?
// "wildcard segments match one non-empty segment and a trailing wildcard matches one or more".
func refWildcardOne(matcher, needle string) Tri {
	mp, np := strings.Split(matcher, "."), strings.Split(needle, ".")
	if len(mp) > len(np) {
		return No
	}
	open := false
	for i, m := range mp {
		last := i == len(mp)-1
		if m == "*" {
			if np[i] == "" {
				return No // a wildcard segment matches one NON-EMPTY segment
			}
			if last && len(np) > len(mp) && anyEmpty(np[i+1:]) {
				open = true // trailing wildcard over empty segments: not documented
			}
			continue
		}
		if m != np[i] {
			return No
		}
		if m == "" {
			open = true // literal empty segments: not documented
		}
		if last && len(np) > len(mp) {
			return No // only a trailing wildcard may cover additional segments
		}
	}
	if open {
		return Open
	}
	return Yes
}

func refHierarchicOne(matcher, needle string) Tri {
	if matcher == needle {
		return Yes
	}
	if matcher == "" || needle == "" {
		return Open
	}
	if strings.HasPrefix(needle, matcher+".") {
		if anyEmpty(strings.Split(needle, ".")) || anyEmpty(strings.Split(matcher, ".")) {
			return Open
		}
		return Yes
	}
	if anyEmpty(strings.Split(needle, ".")) || anyEmpty(strings.Split(matcher, ".")) {
		return Open
	}
	return No
}

// RefScopeMatch: is needle covered by haystack under the named strategy ("" = the documented default, wildcard)?
func RefScopeMatch(strategy string, haystack []string, needle string) Tri {
	res := No
	for _, h := range haystack {
		var t Tri
		switch strategy {
		case "exact":
			t = No
			if h == needle {
				t = Yes
			}
		case "hierarchic":
			t = refHierarchicOne(h, needle)
		default:
			t = refWildcardOne(h, needle)
		}
		if t == Yes {
			return Yes
		}
		if t == Open {
			res = Open
		}
	}
	return res
}

func refAudienceOne(strategy, allowed, requested string) Tri {
	if strategy == "exact" {
		if allowed == requested {
			return Yes
		}
		return No
	}
	hu, err1 := url.Parse(allowed)
	nu, err2 := url.Parse(requested)
	if err1 != nil || err2 != nil {
		return Open
	}
	if hu.Scheme != nu.Scheme {
		if strings.EqualFold(hu.Scheme, nu.Scheme) {
			return Open
		}
		return No
	}
	if hu.Host != nu.Host {
		if strings.EqualFold(hu.Host, nu.Host) {
			return Open // host case: not documented
		}
		return No
	}
	if hu.Opaque != "" || nu.Opaque != "" || hu.Scheme == "" {
		return Open
	}
	hp := strings.TrimRight(hu.Path, "/")
	np := nu.Path
	if np == hu.Path || np == hp || strings.HasPrefix(np, hp+"/") {
		return Yes
	}
	if strings.Contains(np, "//") || strings.Contains(hu.Path, "//") {
		return Open
	}
	return No
}

// RefAudienceMatch: is one requested audience covered by the allowed list?
func RefAudienceMatch(strategy string, allowed []string, requested string) Tri {
	res := No
	for _, h := range allowed {
		t := refAudienceOne(strategy, h, requested)
		if t == Yes {
			return Yes
		}
		if t == Open {
			res = Open
		}
	}
	return res
}
