package sim

import (
	"fmt"
	"strings"
	"testing"
)

// Generators: PLAN = f(tape). One per profile; swarm configuration per run.

const (
	LongSecretA = "sim-global-secret-A-0123456789abcdefghij"
	LongSecretB = "sim-global-secret-B-0123456789abcdefghij"
	LongSecretC = "sim-global-secret-C-0123456789abcdefghij"
)

var allResponseTypes = []string{"code", "token", "id_token", "id_token token", "code id_token", "code token", "code id_token token"}

// baseClients: the standard population used by the history profiles.
func baseClients(t *Tape) []ClientSpec {
	scopes := []string{"openid", "offline", "offline_access", "photos", "users.*", "mail.read"}
	aud := []string{"https://api.sim/v1", "https://files.sim"}
	grants := []string{"authorization_code", "refresh_token", "implicit", "password", "client_credentials", "urn:ietf:params:oauth:grant-type:device_code", "urn:ietf:params:oauth:grant-type:jwt-bearer"}
	cs := []ClientSpec{
		{ID: "conf-a", Secret: "secret-of-conf-a", Rotated: []string{"old-secret-of-conf-a"}, RedirectURIs: []string{"https://app-a.sim/cb", "https://app-a.sim/cb2"},
			GrantTypes: grants, ResponseTypes: allResponseTypes, Scopes: scopes, Audience: aud, ResponseModes: []string{"query", "fragment", "form_post"}},
		{ID: "conf-b", Secret: "secret-of-conf-b", RedirectURIs: []string{"https://app-b.sim/cb"},
			GrantTypes: grants, ResponseTypes: allResponseTypes, Scopes: scopes, Audience: aud, ResponseModes: []string{"query", "fragment", "form_post"}},
		{ID: "pub-c", Public: true, RedirectURIs: []string{"http://127.0.0.1/cb", "https://app-c.sim/cb"},
			GrantTypes: []string{"authorization_code", "refresh_token", "implicit", "urn:ietf:params:oauth:grant-type:device_code"}, ResponseTypes: allResponseTypes, Scopes: scopes, Audience: aud,
			ResponseModes: []string{"query", "fragment", "form_post"}},
	}
	return cs
}

func pickScopes(t *Tape, withOpenID, withOffline int) string {
	s := ""
	add := func(x string) {
		if s != "" {
			s += " "
		}
		s += x
	}
	if t.Chance(withOpenID) {
		add("openid")
	}
	if t.Chance(withOffline) {
		add(t.Pick([]string{"offline", "offline_access"}))
	}
	for _, x := range []string{"photos", "users.read", "mail.read"} {
		if t.Chance(40) {
			add(x)
		}
	}
	return s
}

func pickAud(t *Tape) string {
	switch t.Intn(4) {
	case 0:
		return "https://api.sim/v1"
	case 1:
		return "https://api.sim/v1/things https://files.sim"
	}
	return ""
}

// swarmKnobs draws a per-run configuration for the token-history profiles.
func swarmKnobs(t *Tape) Knobs {
	k := Knobs{Clients: baseClients(t), Users: map[string]string{"peter": "peters-password"}, Store: "plain"}
	k.JWTAccess = t.Chance(35)
	if t.Chance(70) { // explicit random lifetimes: no oracle can pass by sharing a default with the code
		k.ATLife = int64(t.Range(30, 7200))
		k.CodeLife = int64(t.Range(20, 1800))
		k.IDLife = k.CodeLife + int64(t.Range(0, 7200))
		switch t.Intn(4) {
		case 0:
			k.RTLife = -1
		default:
			k.RTLife = k.ATLife + int64(t.Range(60, 90*86400))
		}
	}
	switch t.Intn(4) {
	case 0:
		k.RefreshScopesSet, k.RefreshScopes = true, []string{}
	case 1:
		k.RefreshScopesSet, k.RefreshScopes = true, []string{"photos"}
	}
	if t.Chance(20) {
		k.Store = "tx"
	}
	if t.Chance(20) {
		k.Secret = LongSecretA
	}
	if t.Chance(25) {
		k.IDKey = t.Pick([]string{"rsa1", "ec_p256_0", "ec_p384_0", "ec_p521_0"})
	}
	k.DisableRTValidation = t.Chance(10)
	// swarm over registrations and rarely used configuration: correctness must not depend on one population
	for i := range k.Clients {
		c := &k.Clients[i]
		if t.Chance(20) {
			c.GrantTypes = removeStr(c.GrantTypes, t.Pick([]string{"refresh_token", "implicit", "password", "client_credentials", "urn:ietf:params:oauth:grant-type:device_code", "authorization_code"}))
		}
		if t.Chance(15) {
			c.ResponseTypes = [][]string{{"code"}, {"code", "code id_token"}, {"token", "id_token token", "id_token"}, {"code", "token", "code token", "code id_token token"}}[t.Intn(4)]
		}
		if t.Chance(15) {
			c.Scopes = removeStr(c.Scopes, t.Pick([]string{"offline", "offline_access", "openid", "photos", "mail.read"}))
		}
		if t.Chance(10) {
			c.Audience = removeStr(c.Audience, t.Pick(c.Audience))
		}
		if t.Chance(10) {
			c.ResponseModes = [][]string{nil, {"query"}, {"fragment"}, {"form_post", "fragment"}}[t.Intn(4)]
		}
	}
	if t.Chance(8) {
		k.EnforcePKCEPublic = true
	}
	if t.Chance(5) {
		k.PKCEPlain = true
	}
	if t.Chance(8) {
		k.OmitScopeParam = true
	}
	if t.Chance(8) {
		k.LegacyErrors = true
	}
	if t.Chance(8) {
		k.MinParamEntropy = t.Range(4, 12)
	}
	if t.Chance(10) {
		k.ScopeStrategy = t.Pick([]string{"exact", "hierarchic"})
		if k.ScopeStrategy == "exact" {
			for i := range k.Clients {
				k.Clients[i].Scopes = append(k.Clients[i].Scopes, "users.read")
			}
		}
	}
	k.LegacyRevocationHandler = t.Chance(12)
	k.LibSession = !k.JWTAccess && t.Chance(30)
	if k.JWTAccess && t.Chance(40) {
		k.JWTScopeField = t.Range(1, 3)
	}
	if t.Chance(12) {
		enableCustomMode(t, &k) // extension points: a custom response mode (some clients are registered for it) ...
	}
	if t.Chance(7) {
		// ... and an operator-supplied client-authentication strategy with a deny-list
		k.DenyClient = k.Clients[t.Intn(len(k.Clients))].ID
	}
	return k
}

// enableCustomMode registers the response-mode extension and allows the custom mode for some of the clients.
func enableCustomMode(t *Tape, k *Knobs) {
	k.CustomResponseMode = true
	for i := range k.Clients {
		if t.Chance(60) && k.Clients[i].ResponseModes != nil && !has(k.Clients[i].ResponseModes, SimResponseMode) {
			k.Clients[i].ResponseModes = append(append([]string{}, k.Clients[i].ResponseModes...), SimResponseMode)
		}
	}
}

func st(op string, c, g int, kv ...string) Step {
	s := Step{Op: op, C: c, G: g}
	for i := 0; i+1 < len(kv); i += 2 {
		if s.P == nil {
			s.P = map[string]string{}
		}
		s.P[kv[i]] = kv[i+1]
	}
	return s
}

func advance(t *Tape) Step {
	switch t.Intn(6) {
	case 0:
		return Step{Op: "advance", D: int64(t.Range(1, 900))}
	case 1:
		return Step{Op: "advance", D: int64(t.Range(1, 120)) * 1000}
	case 2:
		return Step{Op: "advance", D: int64(t.Range(1, 48)) * 3600 * 1000}
	case 3: // just before the expiry of a selected credential
		return Step{Op: "advance", V: t.Pick([]string{"code", "at", "rt", "at,rt", "code,at"}), G: t.Intn(50), D: -int64(t.Range(2100, 20000))}
	case 4: // just after
		return Step{Op: "advance", V: t.Pick([]string{"code", "at", "rt", "at,rt", "code,at"}), G: t.Intn(50), D: int64(t.Range(2100, 20000))}
	}
	return Step{Op: "advance", D: int64(t.Range(1, 30)) * 60 * 1000}
}

// genHistory: the shared sequential-history generator. weights select the op mix of a profile.
type mix struct {
	authz, hybrid, redeem, redeemBad, refresh, refreshOld, refreshForeign, introspect, revoke, revokeBad, advance, password, cc int
	device, par, jwtBearer, clientChange, rotate, implicit                                                                      int
	pkce                                                                                                                        int // percent of authorisations carrying a challenge
	pkceBad                                                                                                                     int // percent of redemptions on PKCE grants using a bad verifier variant
	mutate                                                                                                                      int // percent of introspections presenting a mutated credential
	extras                                                                                                                      int // percent of authorisations whose session carries extra claims named like reserved introspection members
	parRedirect                                                                                                                 int // percent of pushed requests naming a redirect_uri / of their uses repeating another one, followed by a redemption with that other one (C02)
	assertions                                                                                                                  int // weight of JWT assertion presentations on both sides of their expiry (C07)
}

func genHistory(t *Tape, k *Knobs, m mix, n int) []Step {
	var steps []Step
	nc := len(k.Clients)
	codes, rts := 0, 0
	w := []int{m.authz, m.hybrid, m.redeem, m.redeemBad, m.refresh, m.refreshOld, m.refreshForeign, m.introspect, m.revoke, m.revokeBad, m.advance, m.password, m.cc,
		m.device, m.par, m.jwtBearer, m.clientChange, m.rotate, m.implicit, m.assertions}
	devs, pars, secretN := 0, 0, 0
	for len(steps) < n {
		switch t.Weighted(w) {
		case 0, 1:
			hybrid := false
			c := t.Intn(nc)
			kv := []string{"scope", pickScopes(t, 50, 70)}
			if a := pickAud(t); a != "" {
				kv = append(kv, "aud", a)
			}
			if t.Chance(m.pkce) {
				switch {
				case t.Chance(m.pkceBad / 4):
					kv = append(kv, "pkce", t.Pick([]string{"S256:malformed", "plain:malformed"}))
				case t.Chance(m.pkceBad / 3):
					kv = append(kv, "pkce", t.Pick([]string{"plain", "plain-implicit", "bogus"}))
				default:
					kv = append(kv, "pkce", "S256")
				}
			}
			if t.Chance(15) {
				kv = append(kv, "redirect", "reg:1")
			}
			s := st("authz", c, 0, kv...)
			// the resource owner may grant only part of what was requested
			if t.Chance(20) {
				req := splitNonEmpty(s.P["scope"])
				if len(req) > 1 {
					s.P["grant"] = strings.Join(req[:1+t.Intn(len(req)-1)], " ")
				}
			}
			if a := splitNonEmpty(s.P["aud"]); len(a) > 1 && t.Chance(40) {
				s.P["grant_aud"] = a[t.Intn(len(a))]
			}
			if t.Chance(m.extras) {
				s.P["extra_reserved"] = "1"
			}
			if t.Weighted([]int{m.authz, m.hybrid}) == 1 {
				hybrid = true
				s.P["rt"] = t.Pick([]string{"code id_token", "code token", "code id_token token"})
				s.P["scope"] = "openid " + s.P["scope"]
				s.P["nonce"] = fmt.Sprintf("nonce-%d-abcdefgh", len(steps))
			}
			_ = hybrid
			steps = append(steps, s)
			codes++
		case 2:
			if codes == 0 {
				continue
			}
			s := Step{Op: "redeem", C: -1, G: t.Intn(codes * 2)}
			if t.Chance(m.pkceBad) {
				s.P = map[string]string{"ver": t.Pick([]string{"wrong", "none", "short", "long", "illegal", "othermethod", "correct", "correct+illegal"})}
				if t.Chance(12) {
					// grant_type as a list: every handler that guards the code has to feel responsible, or none
					s.P["grant_type"] = t.Pick([]string{"authorization_code refresh_token", "refresh_token authorization_code", "authorization_code authorization_code", "authorization_code client_credentials"})
				}
			}
			steps = append(steps, s)
			rts++
		case 3:
			if codes == 0 {
				continue
			}
			s := Step{Op: "redeem", C: -1, G: t.Intn(codes * 2), P: map[string]string{}}
			switch t.Intn(8) {
			case 7:
				// a foreign PUBLIC client identifies itself in the Authorization header and names the code's owner in the body
				s.C = t.Intn(nc)
				for i, c := range k.Clients {
					if c.Public && !c.OIDC {
						s.C = i
						s.A = "pub_basic"
						s.P["client_id"] = "victim"
					}
				}
			case 0:
				s.C = t.Intn(nc)
			case 1:
				s.P["redir"] = t.Pick([]string{"omit", "other", "enc", "slash", "add"})
			case 2:
				s.A = t.Pick([]string{"bad_secret", "none"})
			case 3:
				s.P["ver"] = t.Pick([]string{"wrong", "none", "short", "illegal", "othermethod"})
			case 4:
				s.P["scope"] = "admin photos users.write"
				s.P["audience"] = "https://evil.example"
			case 5:
				s.C = t.Intn(nc)
				s.A = "bad_secret"
			case 6:
				s.P["mutate"] = t.Pick([]string{"flipkey", "flipsig", "swapkey"})
			}
			steps = append(steps, s)
		case 4:
			if rts == 0 {
				continue
			}
			// mostly the newest refresh token
			steps = append(steps, Step{Op: "refresh", C: -1, G: -1 - t.Intn(2), V: "latest"})
		case 5:
			if rts == 0 {
				continue
			}
			steps = append(steps, Step{Op: "refresh", C: -1, G: t.Intn(40)})
		case 6:
			if rts == 0 {
				continue
			}
			s := Step{Op: "refresh", C: t.Intn(nc), G: t.Intn(40), P: map[string]string{}}
			switch t.Intn(4) {
			case 0:
				s.A = "bad_secret"
			case 1:
				s.P["scope"] = "admin photos users.write openid offline"
				s.P["audience"] = "https://evil.example"
				s.C = -1
			case 2:
				s.P["mutate"] = t.Pick([]string{"flipkey", "flipsig", "swapkey"})
				s.C = -1
			}
			steps = append(steps, s)
		case 7:
			s := Step{Op: "introspect", C: t.Intn(2), G: t.Intn(60), V: t.Pick([]string{"", "hint_right", "hint_wrong", "hint_garbage"})}
			if t.Chance(12) {
				s.C = t.Intn(nc) // the caller may be any registered client - a public one proves nothing, whatever password accompanies its id
			}
			switch t.Intn(10) {
			case 0:
				s.A = "bad_secret"
			case 1:
				s.A = "none"
			case 2:
				s.A, s.D = "bearer", int64(t.Intn(30))
			case 3:
				s.A = "bearer_same"
			case 4:
				s.A, s.D = "bearer_rt", int64(t.Intn(30)) // a refresh token is not a caller credential, however valid it is
			}
			if t.Chance(25) {
				s.P = map[string]string{"scope": t.Pick([]string{"photos", "users.read", "admin", "openid photos", "mail.read", "offline", "offline_access", "openid"})}
			}
			if t.Chance(m.mutate) {
				if s.P == nil {
					s.P = map[string]string{}
				}
				s.P["mutate"] = t.Pick([]string{"flipkey", "flipsig", "trunckey", "truncsig", "swapkey", "foreignsecret", "foreignkey-storedsig", "emptykey", "emptysig", "none", "hs256", "header", "payload", "dropsig"})
			}
			steps = append(steps, s)
		case 8:
			steps = append(steps, Step{Op: "revoke", C: -1, G: t.Intn(60), V: t.Pick([]string{"", "hint_right", "hint_wrong", "hint_garbage"})})
		case 9:
			s := Step{Op: "revoke", C: t.Intn(nc), G: t.Intn(60), V: t.Pick([]string{"", "hint_right", "hint_wrong"})}
			switch t.Intn(3) {
			case 0:
				s.A = "bad_secret"
			case 1:
				s.A = "none"
			}
			steps = append(steps, s)
		case 10:
			steps = append(steps, advance(t))
		case 11:
			steps = append(steps, st("password", t.Intn(2), 0, "scope", pickScopes(t, 0, 70)))
			rts++
		case 12:
			steps = append(steps, st("client_credentials", t.Intn(nc), 0, "scope", pickScopes(t, 0, 30)))
		case 13: // device flow: authz / decide / poll
			switch {
			case devs == 0 || t.Chance(25):
				kv := []string{"scope", pickScopes(t, 40, 70)}
				if a := pickAud(t); a != "" {
					kv = append(kv, "aud", a)
				}
				steps = append(steps, st("device_authz", t.Intn(nc), 0, kv...))
				devs++
			case t.Chance(40):
				d := Step{Op: "device_decide", G: t.Intn(devs * 2), V: t.Pick([]string{"accept", "accept", "accept", "reject"})}
				if t.Chance(20) {
					d.P = map[string]string{"fresh_session": "1"} // the verification page installs a NEW session for the user it just identified
				} else if t.Chance(25) { // partial consent on the verification page
					d.P = map[string]string{}
					if t.Bool() {
						d.P["grant_first"] = fmt.Sprint(t.Intn(3))
					}
					if t.Bool() {
						d.P["aud_first"] = fmt.Sprint(t.Intn(3))
					}
				}
				steps = append(steps, d)
			default:
				s := Step{Op: "device_token", C: -1, G: t.Intn(devs * 2)}
				if t.Chance(15) {
					s.C = t.Intn(nc)
				}
				if t.Chance(8) {
					s.P = map[string]string{"mutate": t.Pick([]string{"flipkey", "swapkey", "foreignkey-storedsig", "trunckey", "flipsig"})}
				}
				if t.Chance(5) {
					s.A = "bad_secret"
				}
				steps = append(steps, s)
				rts++
			}
		case 14: // PAR: push / use
			if pars == 0 || t.Chance(40) {
				kv := []string{"scope", pickScopes(t, 30, 60)}
				if t.Chance(m.pkce) {
					kv = append(kv, "pkce", "S256")
				}
				if t.Chance(20 + m.parRedirect) {
					kv = append(kv, "redirect", "reg:1")
				}
				ps := st("par_push", t.Intn(nc), 0, kv...)
				if m.par >= 50 && t.Chance(8) {
					ps.A = t.Pick([]string{"bad_secret", "none", "as_other", "as_other_query"})
				}
				if m.par >= 50 && t.Chance(7) {
					ps.P["embed_request_uri"] = "1" // a pushed request must not itself contain a request_uri
				}
				if m.par >= 50 && t.Chance(7) {
					ps.P["no_client_id"] = "1" // the Authorization header alone identifies the client
				}
				steps = append(steps, ps)
				pars++
			} else {
				s := Step{Op: "authz_par", C: -1, G: t.Intn(pars * 2), P: map[string]string{}}
				if t.Chance(15) {
					s.C = t.Intn(nc)
				}
				if m.par >= 50 && t.Chance(12) {
					// request URIs the server never issued: own prefix, or a foreign one (an ordinary parameter unless pushing is enforced)
					s.V = t.Pick([]string{"unknown", "foreign_prefix", "foreign_prefix"})
					s.C = t.Intn(nc)
					if t.Chance(65) {
						s.P["inline"] = "1"
					}
					steps = append(steps, s)
					continue
				}
				if t.Chance(30) {
					s.P["x_scope"] = "admin photos"
					s.P["x_state"] = "attacker-state-xyz"
				}
				if t.Chance(20 + m.pkceBad/3) {
					if t.Chance(65) {
						s.P["x_code_challenge"] = s256(AttackerVerifier)
						s.P["x_code_challenge_method"] = "S256"
					} else {
						// present but empty: an attempt to strip the pushed PKCE binding
						s.P["x_code_challenge"] = "EMPTY"
						s.P["x_code_challenge_method"] = t.Pick([]string{"EMPTY", "S256", "plain"})
					}
					if m.pkceBad > 0 && t.Chance(70) {
						steps = append(steps, s)
						codes++
						s = Step{Op: "redeem", C: -1, V: "latest", P: map[string]string{"ver": t.Pick([]string{"attacker", "none", "none", "correct"})}}
						steps = append(steps, s)
						continue
					}
				}
				if t.Chance(10) {
					s.P["x_nonce"] = "attacker-nonce-abcdefgh"
				}
				if t.Chance(15 + m.parRedirect) {
					s.P["x_redirect"] = t.Pick([]string{"reg:1", "reg:0"})
				}
				steps = append(steps, s)
				codes++
				if s.P["x_redirect"] != "" && t.Chance(m.parRedirect) {
					// the code of a pushed request is bound to the PUSHED redirect_uri, not to one repeated at the authorization endpoint
					steps = append(steps, Step{Op: "redeem", C: -1, V: "latest", P: map[string]string{"redir": t.Pick([]string{"other", "other", ""})}})
				}
			}
		case 15:
			steps = append(steps, Step{Op: "jwt_bearer", C: t.Intn(2), D: int64(t.Intn(4)), P: map[string]string{"scope": t.Pick([]string{"", "photos", "mail.read", "photos mail.read"})}})
		case 16:
			v := t.Pick([]string{"rotate_secret:rotated-client-secret-" + fmt.Sprint(len(steps)), "drop_rotated", "drop_scope:photos", "drop_scope:offline", "drop_scope:users.*", "drop_scope:openid", "drop_aud:https://api.sim/v1", "drop_all_aud", "drop_grant:refresh_token", "drop_scope:mail.read", "drop_aud:https://files.sim"})
			cc := Step{Op: "client_change", C: t.Intn(nc), V: v}
			if t.Chance(50) {
				cc.P = map[string]string{"how": "replace"}
			}
			steps = append(steps, cc)
		case 17:
			secretN++
			v := t.Pick([]string{"keep_old", "keep_old", "forget_old", "drop_rotated", "reverse_rotated"})
			steps = append(steps, Step{Op: "rotate_global", V: v, P: map[string]string{"new": fmt.Sprintf("rotated-global-secret-%02d-0123456789abcdef", secretN)}})
		case 19:
			if t.Bool() {
				steps = append(steps, Step{Op: "bearer_assert", C: t.Intn(2), D: int64(t.Intn(3)), V: t.Pick([]string{"ok", "exp_past", "exp_just_past", "exp_past_45s", "exp_soon", "nbf_just_ahead", "nbf_past", "exp_too_far", "exp_within_max"})})
			} else {
				steps = append(steps, Step{Op: "client_assert", C: t.Intn(2), V: t.Pick([]string{"ok", "expired", "exp_just_past", "expired_45s", "expired_long", "exp_soon", "exp_zero", "replay"})})
			}
		case 18:
			c := t.Intn(nc)
			s := st("authz", c, 0, "rt", t.Pick([]string{"token", "id_token token", "id_token"}), "scope", "openid "+pickScopes(t, 0, 20), "nonce", fmt.Sprintf("nonce-%d-abcdefgh", len(steps)))
			if t.Chance(25) {
				s.P["preset_at_exp"] = fmt.Sprint(t.Range(20, 5000))
			}
			steps = append(steps, s)
		}
	}
	return steps
}

// Profiles ---------------------------------------------------------------

type PropSpec struct {
	ID             string
	Profiles       []string
	Characteristic []string // probe prefixes: a run is non-trivial for the property if it hit at least one
	Rule           string
	Level          string
	Enumerate      func(t *testing.T, job *Job, out *WorkerOut, found map[string]*Found) map[string]interface{}
}

var PropSpecs = map[string]*PropSpec{}

func regProp(p *PropSpec) { PropSpecs[p.ID] = p }

type Profile struct {
	Name string
	Prop string
	Gen  func(t *Tape) *Plan
}

// sprinkleFaults turns a fault-free history into a recovery history: some token-endpoint requests meet a storage failure, a
// crash or a transaction failure at a random storage call; the rest of the history runs fault-free, so that the "faults stop
// => the system converges" rules (reconverged, fail-closed, retry after a clean rollback) get material in ARBITRARY histories,
// not only in the fixed flows that C18 enumerates.
var faultCalls = []string{"GetClient", "GetAuthorizeCodeSession", "InvalidateAuthorizeCodeSession", "GetPKCERequestSession", "DeletePKCERequestSession",
	"GetOpenIDConnectSession", "DeleteOpenIDConnectSession", "CreateAccessTokenSession", "CreateRefreshTokenSession", "GetRefreshTokenSession",
	"RotateRefreshToken", "RevokeRefreshToken", "RevokeAccessToken", "DeleteRefreshTokenSession", "DeleteAccessTokenSession", "GetAccessTokenSession",
	"GetDeviceCodeSession", "InvalidateDeviceCodeSession", "GetPARSession", "DeletePARSession", "CreateAuthorizeCodeSession", "CreateOpenIDConnectSession",
	"CreatePKCERequestSession", "ClientAssertionJWTValid", "SetClientAssertionJWT"}

func sprinkleFaults(t *Tape, steps []Step, pct int) []Step {
	kinds := append(append([]string{}, c18Kinds...), c18TxKinds...)
	if t.Chance(40) && len(steps) > 3 {
		// the process restarts between two requests: a fresh provider is composed over the surviving store
		at := 1 + t.Intn(len(steps)-1)
		steps = append(steps[:at], append([]Step{{Op: "restart"}}, steps[at:]...)...)
	}
	for i := range steps {
		switch steps[i].Op {
		case "redeem", "refresh", "device_token", "revoke", "authz_par":
			if t.Chance(pct) {
				steps[i].F = &FaultSpec{Kind: t.Pick(kinds), At: t.Intn(9)}
				if t.Chance(35) {
					// aim at a named storage call (its first occurrence in the request) instead of a call index: long flows have
					// more than nine calls and the interesting ones (PKCE / OpenID session, second revocation step) sit late
					steps[i].F.At = -1
					steps[i].F.Call = t.Pick(faultCalls)
				}
			}
		}
	}
	return steps
}

var Profiles = map[string]*Profile{}

func reg(p *Profile) { Profiles[p.Name] = p }

func init() {
	regProp(&PropSpec{ID: "C01", Profiles: []string{"c01", "c01f"}, Characteristic: []string{"code-replay"}, Level: "exploration",
		Rule: "seeded sequential histories (authorize/redeem/refresh/revoke/introspect/advance, 3 clients, code+hybrid flows, swarm config); non-trivial = the history replays an already-redeemed code at least once; distinct = distinct abstract history shape x store x token strategy"})
	reg(&Profile{Name: "c01", Prop: "C01", Gen: func(t *Tape) *Plan {
		k := swarmKnobs(t)
		m := mix{authz: 14, hybrid: 6, redeem: 22, redeemBad: 4, refresh: 14, refreshOld: 2, refreshForeign: 1, introspect: 6, revoke: 3, revokeBad: 1, advance: 8, par: 4, pkce: 25}
		return &Plan{Profile: "c01", Prop: "C01", K: k, Steps: genHistory(t, &k, m, t.Range(12, 45))}
	}})
}

func bearerKeys() []BearerKeySpec {
	return []BearerKeySpec{
		{Issuer: "svc-one@sim", Subject: "svc-one", KeyName: "rsa1", KID: "bk-1", Scopes: []string{"photos", "mail.*"}},
		{Issuer: "svc-two@sim", Subject: "svc-two", KeyName: "ec_p256_1", KID: "bk-2", Scopes: []string{"photos"}},
		// a key registered WITHOUT scopes covers no scope at all (it is not "unrestricted")
		{Issuer: "svc-three@sim", Subject: "svc-three", KeyName: "rsa3", KID: "bk-3", Scopes: nil},
	}
}

func init() {
	hist := func(name, prop string, m mix, lo, hi int, tweak func(t *Tape, k *Knobs)) {
		reg(&Profile{Name: name, Prop: prop, Gen: func(t *Tape) *Plan {
			k := swarmKnobs(t)
			k.BearerKeys = bearerKeys()
			if tweak != nil {
				tweak(t, &k)
			}
			return &Plan{Profile: name, Prop: prop, K: k, Steps: genHistory(t, &k, m, t.Range(lo, hi))}
		}})
	}
	// C02: binding of the code to client / redirect_uri / lifetime; immutable grant
	hist("c02", "C02", mix{authz: 16, hybrid: 5, redeem: 14, redeemBad: 22, refresh: 4, introspect: 6, advance: 12, par: 8, parRedirect: 40, pkce: 15}, 10, 36, func(t *Tape, k *Knobs) {
		k.Clients[1].RedirectURIs = append(k.Clients[1].RedirectURIs, "https://app-b.sim/other")
		if t.Chance(40) {
			// per-client token lifespans: they govern tokens, never how long the CODE stays redeemable
			ls := map[string]int64{}
			for _, key := range []string{"authorization_code:access_token", "authorization_code:refresh_token", "authorization_code:id_token", "refresh_token:access_token"} {
				if t.Bool() {
					ls[key] = int64(t.Range(1800, 90000))
				}
			}
			k.Clients[t.Intn(len(k.Clients))].Lifespans = ls
		}
	})
	// C03: PKCE attempt sequences under every enforcement configuration
	hist("c03", "C03", mix{authz: 16, hybrid: 6, redeem: 40, redeemBad: 4, advance: 3, introspect: 1, par: 7, pkce: 65, pkceBad: 60}, 8, 28, func(t *Tape, k *Knobs) {
		k.EnforcePKCE = t.Chance(25)
		k.EnforcePKCEPublic = t.Chance(35)
		k.PKCEPlain = t.Chance(50)
	})
	// C04: rotation and reuse across several independent grants of all origins
	hist("c04", "C04", mix{authz: 10, hybrid: 4, redeem: 14, refresh: 26, refreshOld: 12, refreshForeign: 3, introspect: 4, revoke: 3, advance: 5, password: 5, device: 14, pkce: 10}, 16, 55, nil)
	{
		// motifs appended to a share of the C04 histories (rare as random draws, central to the statement): a reuse presented
		// AFTER the reused generation's own expiry, and a reuse of a generation several rotations old
		base := Profiles["c04"].Gen
		Profiles["c04"].Gen = func(t *Tape) *Plan {
			p := base(t)
			if t.Chance(30) {
				gap := Step{Op: "advance", D: int64(t.Range(5, 40)) * 60 * 1000} // generations are minted minutes apart, so they expire apart
				p.Steps = append(p.Steps, st("password", t.Intn(2), 0, "scope", "offline photos"), gap,
					Step{Op: "refresh", C: -1, V: "latest"}, gap, Step{Op: "refresh", C: -1, V: "latest"})
				if t.Bool() {
					p.Steps = append(p.Steps, Step{Op: "advance", V: "rt", G: 2, D: int64(t.Range(2100, 20000)), P: map[string]string{"from_end": "1"}}) // just after the expiry of the generation before last
				}
				p.Steps = append(p.Steps, Step{Op: "refresh", C: -1, V: "latest", G: t.Range(1, 2)}, Step{Op: "introspect", C: 0, G: t.Intn(40)}, Step{Op: "refresh", C: -1, V: "latest"})
			}
			return p
		}
	}
	// C05: refresh never widens / crosses clients; registration changes; refresh-scope configuration; scope strategies
	hist("c05", "C05", mix{authz: 10, hybrid: 3, redeem: 14, refresh: 22, refreshOld: 2, refreshForeign: 10, introspect: 5, advance: 4, password: 6, device: 8, clientChange: 8, cc: 2, pkce: 10}, 14, 50, func(t *Tape, k *Knobs) {
		k.ScopeStrategy = t.Pick([]string{"", "exact", "hierarchic", "wildcard"})
		if k.ScopeStrategy == "exact" {
			for i := range k.Clients {
				k.Clients[i].Scopes = append(k.Clients[i].Scopes, "users.read")
			}
		}
		if t.Chance(30) {
			k.Clients[0].GrantTypes = removeStr(k.Clients[0].GrantTypes, "refresh_token")
		}
	})
	// C07: every credential kind on both sides of its expiry; lifetime sources incl. per-client overrides
	hist("c07", "C07", mix{authz: 10, hybrid: 5, implicit: 4, redeem: 12, refresh: 10, refreshOld: 1, introspect: 12, advance: 30, password: 4, cc: 3, device: 12, par: 10, jwtBearer: 3, pkce: 10, assertions: 8}, 14, 50, func(t *Tape, k *Knobs) {
		jwtClients(k)
		if t.Chance(50) {
			k.DeviceLife = int64(t.Range(30, 3600))
			k.PARLife = int64(t.Range(20, 1200))
		}
		if t.Chance(50) {
			keys := []string{"authorization_code:access_token", "authorization_code:refresh_token", "refresh_token:access_token", "refresh_token:refresh_token", "implicit:access_token",
				"password:access_token", "password:refresh_token", "client_credentials:access_token", "jwt_bearer:access_token"}
			ls := map[string]int64{}
			for i := 0; i < 1+t.Intn(3); i++ {
				ls[t.Pick(keys)] = int64(t.Range(20, 5000))
			}
			k.Clients[t.Intn(2)].Lifespans = ls
		}
	})
	// C08: revocation
	hist("c08", "C08", mix{authz: 10, hybrid: 2, redeem: 14, refresh: 10, refreshOld: 2, introspect: 6, revoke: 24, revokeBad: 12, advance: 6, password: 5, device: 7, cc: 3, jwtBearer: 2, implicit: 2, pkce: 10, mutate: 10}, 14, 48, nil)
	// C09: introspection truthfulness over arbitrary histories
	hist("c09", "C09", mix{authz: 8, hybrid: 3, implicit: 3, redeem: 12, redeemBad: 2, refresh: 10, refreshOld: 3, introspect: 40, revoke: 5, advance: 8, password: 4, cc: 3, device: 8, jwtBearer: 3, clientChange: 1, pkce: 10, mutate: 25, extras: 30}, 16, 55, func(t *Tape, k *Knobs) {
		k.ScopeStrategy = t.Pick([]string{"", "", "exact", "hierarchic"})
		k.DisableRTValidation = t.Chance(30)
	})
	// C16: device grant state machine, reference store and contract-following store
	hist("c16", "C16", mix{device: 70, advance: 14, introspect: 6, refresh: 6, revoke: 2}, 12, 44, func(t *Tape, k *Knobs) {
		k.Store = t.Pick([]string{"plain", "contract", "contract", "txc"})
		if t.Chance(60) {
			k.DeviceLife = int64(t.Range(30, 1800))
		}
	})
	// C17: PAR
	hist("c17", "C17", mix{par: 60, authz: 8, redeem: 10, advance: 14, introspect: 3}, 10, 40, func(t *Tape, k *Knobs) {
		k.PAREnforced = t.Chance(35)
		if t.Chance(30) {
			k.PARPrefix = "urn:sim:par:"
		}
		if t.Chance(60) {
			k.PARLife = int64(t.Range(20, 900))
		}
	})

	// recovery variants: the same histories with storage failures / crashes inside some token requests
	recov := func(name, base string, pct int, stores []string) {
		b := Profiles[base]
		reg(&Profile{Name: name, Prop: b.Prop, Gen: func(t *Tape) *Plan {
			p := b.Gen(t)
			p.Profile = name
			if stores != nil {
				p.K.Store = t.Pick(stores)
			}
			p.Steps = sprinkleFaults(t, p.Steps, pct)
			return p
		}})
	}
	recov("c01f", "c01", 12, []string{"plain", "plain", "tx"})
	recov("c04f", "c04", 10, []string{"plain", "plain", "tx"})
	{
		// motif: reuse handling itself meets a failure (at a named call), then the reuse is presented again without faults
		base := Profiles["c04f"].Gen
		Profiles["c04f"].Gen = func(t *Tape) *Plan {
			p := base(t)
			if t.Chance(25) {
				kinds := []string{"store-err", "store-err", "lost-ack", "crash-after", "store-notfound"}
				p.Steps = append(p.Steps, st("password", t.Intn(2), 0, "scope", "offline photos"), Step{Op: "refresh", C: -1, V: "latest"},
					Step{Op: "refresh", C: -1, V: "latest", G: 1, F: &FaultSpec{Kind: t.Pick(kinds), At: -1, Call: t.Pick([]string{"RevokeAccessToken", "RevokeRefreshToken", "DeleteRefreshTokenSession"})}},
					Step{Op: "refresh", C: -1, V: "latest", G: t.Intn(2)}, Step{Op: "refresh", C: -1, V: "latest", G: t.Intn(2)})
			}
			return p
		}
	}
	recov("c16f", "c16", 10, nil)
	recov("c17f", "c17", 15, []string{"plain", "plain", "tx"})
	recov("c02f", "c02", 10, nil)
	recov("c03f", "c03", 12, nil)
	recov("c05f", "c05", 8, nil)
	recov("c07f", "c07", 8, nil)
	recov("c08f", "c08", 10, nil)

	// C13 through the pushed-authorization path: the state of the PUSHED request is echoed on success and on every redirected
	// error (expired or foreign request_uri, refused consent, a storage failure while the pushed request is consumed)
	reg(&Profile{Name: "c13par", Prop: "C13", Gen: func(t *Tape) *Plan {
		p := Profiles["c17"].Gen(t)
		p.Profile, p.Prop = "c13par", "C13"
		for i := range p.Steps {
			s := &p.Steps[i]
			if s.Op != "authz_par" {
				continue
			}
			if s.P == nil {
				s.P = map[string]string{}
			}
			switch t.Intn(6) {
			case 0:
				s.C = t.Intn(len(p.K.Clients))
			case 1:
				s.F = &FaultSpec{Kind: t.Pick([]string{"store-err", "store-err", "lost-ack", "store-notfound"}), At: -1, Call: t.Pick([]string{"DeletePARSession", "GetPARSession", "CreateAuthorizeCodeSession"})}
			case 2:
				s.P["deny"] = "1"
			}
		}
		return p
	}})

	// C08 after concurrency: two token requests that redeemed one code (or refreshed one token) at the same time leave several
	// tokens under one request id in the reference store; an accepted revocation must still make the PRESENTED token inactive
	reg(&Profile{Name: "c08conc", Prop: "C08", Gen: func(t *Tape) *Plan {
		k := swarmKnobs(t)
		k.Store = "plain"
		var steps []Step
		for round := 0; round < t.Range(1, 3); round++ {
			c := t.Intn(len(k.Clients))
			steps = append(steps, st("authz", c, 0, "scope", "offline photos users.read"))
			var picks []int
			for i := 0; i < 40; i++ {
				picks = append(picks, t.Intn(2))
			}
			sub := []Step{{Op: "redeem", C: -1, V: "latest"}, {Op: "redeem", C: -1, V: "latest"}}
			steps = append(steps, Step{Op: "concurrent", Sub: sub, S: picks})
			if t.Chance(50) {
				var p2 []int
				for i := 0; i < 40; i++ {
					p2 = append(p2, t.Intn(2))
				}
				steps = append(steps, Step{Op: "concurrent", Sub: []Step{{Op: "refresh", C: -1, V: "latest"}, {Op: "refresh", C: -1, V: "latest", G: 1}}, S: p2})
			}
			for i := 0; i < t.Range(1, 4); i++ {
				steps = append(steps, Step{Op: "revoke", C: -1, G: t.Intn(12), V: t.Pick([]string{"", "hint_right", "hint_wrong"})})
				if t.Chance(40) {
					steps = append(steps, Step{Op: "introspect", C: 0, G: t.Intn(12)})
				}
			}
		}
		return &Plan{Profile: "c08conc", Prop: "C08", K: k, Steps: steps}
	}})

	regProp(&PropSpec{ID: "C02", Profiles: []string{"c02", "c02f"}, Characteristic: []string{"redeem-foreign-client", "redeem-redirect-mismatch"}})
	regProp(&PropSpec{ID: "C03", Profiles: []string{"c03", "c03f"}, Characteristic: []string{"pkce-bad-verifier"}})
	regProp(&PropSpec{ID: "C04", Profiles: []string{"c04", "c04f"}, Characteristic: []string{"rt-reuse"}})
	regProp(&PropSpec{ID: "C05", Profiles: []string{"c05", "c05f"}, Characteristic: []string{"refresh-foreign-client", "refresh-registration-narrowed"}})
	regProp(&PropSpec{ID: "C07", Profiles: []string{"c07", "c07f"}, Characteristic: []string{"boundary:"}})
	regProp(&PropSpec{ID: "C08", Profiles: []string{"c08", "c08f", "c08", "c08f", "c08conc"}, Characteristic: []string{"revoke-"}})
	regProp(&PropSpec{ID: "C09", Profiles: []string{"c09"}, Characteristic: []string{"introspect-"}})
	regProp(&PropSpec{ID: "C16", Profiles: []string{"c16", "c16f"}, Characteristic: []string{"device-"}})
	regProp(&PropSpec{ID: "C17", Profiles: []string{"c17", "c17f"}, Characteristic: []string{"par-"}})
}
