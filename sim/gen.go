package sim

import (
	"fmt"
	"testing"
)

// Generators: PLAN = f(tape). One per profile; swarm configuration per run.

const (
	LongSecretA = "sim-global-secret-A-0123456789abcdefghij"
	LongSecretB = "sim-global-secret-B-0123456789abcdefghij"
	LongSecretC = "sim-global-secret-C-0123456789abcdefghij"
)

var allResponseTypes = []string{"code", "token", "id_token", "id_token token", "code id_token", "code token", "code id_token token"}

// baseClients: the standard population used by the history profiles.
func baseClients(t *Tape) []ClientSpec {
	scopes := []string{"openid", "offline", "offline_access", "photos", "users.*", "mail.read"}
	aud := []string{"https://api.sim/v1", "https://files.sim"}
	grants := []string{"authorization_code", "refresh_token", "implicit", "password", "client_credentials", "urn:ietf:params:oauth:grant-type:device_code", "urn:ietf:params:oauth:grant-type:jwt-bearer"}
	cs := []ClientSpec{
		{ID: "conf-a", Secret: "secret-of-conf-a", Rotated: []string{"old-secret-of-conf-a"}, RedirectURIs: []string{"https://app-a.sim/cb", "https://app-a.sim/cb2"},
			GrantTypes: grants, ResponseTypes: allResponseTypes, Scopes: scopes, Audience: aud, ResponseModes: []string{"query", "fragment", "form_post"}},
		{ID: "conf-b", Secret: "secret-of-conf-b", RedirectURIs: []string{"https://app-b.sim/cb"},
			GrantTypes: grants, ResponseTypes: allResponseTypes, Scopes: scopes, Audience: aud, ResponseModes: []string{"query", "fragment", "form_post"}},
		{ID: "pub-c", Public: true, RedirectURIs: []string{"http://127.0.0.1/cb", "https://app-c.sim/cb"},
			GrantTypes: []string{"authorization_code", "refresh_token", "implicit", "urn:ietf:params:oauth:grant-type:device_code"}, ResponseTypes: allResponseTypes, Scopes: scopes, Audience: aud,
			ResponseModes: []string{"query", "fragment", "form_post"}},
	}
	return cs
}

func pickScopes(t *Tape, withOpenID, withOffline int) string {
	s := ""
	add := func(x string) {
		if s != "" {
			s += " "
		}
		s += x
	}
	if t.Chance(withOpenID) {
		add("openid")
	}
	if t.Chance(withOffline) {
		add(t.Pick([]string{"offline", "offline_access"}))
	}
	for _, x := range []string{"photos", "users.read", "mail.read"} {
		if t.Chance(40) {
			add(x)
		}
	}
	return s
}

func pickAud(t *Tape) string {
	switch t.Intn(4) {
	case 0:
		return "https://api.sim/v1"
	case 1:
		return "https://api.sim/v1/things https://files.sim"
	}
	return ""
}

// swarmKnobs draws a per-run configuration for the token-history profiles.
func swarmKnobs(t *Tape) Knobs {
	k := Knobs{Clients: baseClients(t), Users: map[string]string{"peter": "peters-password"}, Store: "plain"}
	k.JWTAccess = t.Chance(35)
	if t.Chance(70) { // explicit random lifetimes: no oracle can pass by sharing a default with the code
		k.ATLife = int64(t.Range(30, 7200))
		k.CodeLife = int64(t.Range(20, 1800))
		k.IDLife = k.CodeLife + int64(t.Range(0, 7200))
		switch t.Intn(4) {
		case 0:
			k.RTLife = -1
		default:
			k.RTLife = k.ATLife + int64(t.Range(60, 90*86400))
		}
	}
	switch t.Intn(4) {
	case 0:
		k.RefreshScopesSet, k.RefreshScopes = true, []string{}
	case 1:
		k.RefreshScopesSet, k.RefreshScopes = true, []string{"photos"}
	}
	if t.Chance(20) {
		k.Store = "tx"
	}
	if t.Chance(20) {
		k.Secret = LongSecretA
	}
	if t.Chance(25) {
		k.IDKey = t.Pick([]string{"rsa1", "ec_p256_0", "ec_p384_0", "ec_p521_0"})
	}
	k.DisableRTValidation = t.Chance(10)
	return k
}

func st(op string, c, g int, kv ...string) Step {
	s := Step{Op: op, C: c, G: g}
	for i := 0; i+1 < len(kv); i += 2 {
		if s.P == nil {
			s.P = map[string]string{}
		}
		s.P[kv[i]] = kv[i+1]
	}
	return s
}

func advance(t *Tape) Step {
	switch t.Intn(6) {
	case 0:
		return Step{Op: "advance", D: int64(t.Range(1, 900))}
	case 1:
		return Step{Op: "advance", D: int64(t.Range(1, 120)) * 1000}
	case 2:
		return Step{Op: "advance", D: int64(t.Range(1, 48)) * 3600 * 1000}
	case 3: // just before the expiry of a selected credential
		return Step{Op: "advance", V: t.Pick([]string{"code", "at", "rt", "at,rt", "code,at"}), G: t.Intn(50), D: -int64(t.Range(2100, 20000))}
	case 4: // just after
		return Step{Op: "advance", V: t.Pick([]string{"code", "at", "rt", "at,rt", "code,at"}), G: t.Intn(50), D: int64(t.Range(2100, 20000))}
	}
	return Step{Op: "advance", D: int64(t.Range(1, 30)) * 60 * 1000}
}

// genHistory: the shared sequential-history generator. weights select the op mix of a profile.
type mix struct {
	authz, hybrid, redeem, redeemBad, refresh, refreshOld, refreshForeign, introspect, revoke, revokeBad, advance, password, cc int
	pkce int // percent of authorisations carrying a challenge
}

func genHistory(t *Tape, k *Knobs, m mix, n int) []Step {
	var steps []Step
	nc := len(k.Clients)
	codes, rts := 0, 0
	w := []int{m.authz, m.hybrid, m.redeem, m.redeemBad, m.refresh, m.refreshOld, m.refreshForeign, m.introspect, m.revoke, m.revokeBad, m.advance, m.password, m.cc}
	for len(steps) < n {
		switch t.Weighted(w) {
		case 0, 1:
			hybrid := false
			c := t.Intn(nc)
			kv := []string{"scope", pickScopes(t, 50, 70)}
			if a := pickAud(t); a != "" {
				kv = append(kv, "aud", a)
			}
			if t.Chance(m.pkce) {
				kv = append(kv, "pkce", "S256")
			}
			if t.Chance(15) {
				kv = append(kv, "redirect", "reg:1")
			}
			s := st("authz", c, 0, kv...)
			if t.Weighted([]int{m.authz, m.hybrid}) == 1 {
				hybrid = true
				s.P["rt"] = t.Pick([]string{"code id_token", "code token", "code id_token token"})
				s.P["scope"] = "openid " + s.P["scope"]
				s.P["nonce"] = fmt.Sprintf("nonce-%d-abcdefgh", len(steps))
			}
			_ = hybrid
			steps = append(steps, s)
			codes++
		case 2:
			if codes == 0 {
				continue
			}
			steps = append(steps, Step{Op: "redeem", C: -1, G: t.Intn(codes * 2)})
			rts++
		case 3:
			if codes == 0 {
				continue
			}
			s := Step{Op: "redeem", C: -1, G: t.Intn(codes * 2), P: map[string]string{}}
			switch t.Intn(7) {
			case 0:
				s.C = t.Intn(nc)
			case 1:
				s.P["redir"] = t.Pick([]string{"omit", "other", "enc", "slash"})
			case 2:
				s.A = t.Pick([]string{"bad_secret", "none"})
			case 3:
				s.P["ver"] = t.Pick([]string{"wrong", "none", "short", "illegal", "othermethod"})
			case 4:
				s.P["scope"] = "admin photos users.write"
				s.P["audience"] = "https://evil.example"
			case 5:
				s.C = t.Intn(nc)
				s.A = "bad_secret"
			case 6:
				s.P["mutate"] = t.Pick([]string{"flipkey", "flipsig", "swapkey"})
			}
			steps = append(steps, s)
		case 4:
			if rts == 0 {
				continue
			}
			// mostly the newest refresh token
			steps = append(steps, Step{Op: "refresh", C: -1, G: -1 - t.Intn(2), V: "latest"})
		case 5:
			if rts == 0 {
				continue
			}
			steps = append(steps, Step{Op: "refresh", C: -1, G: t.Intn(40)})
		case 6:
			if rts == 0 {
				continue
			}
			s := Step{Op: "refresh", C: t.Intn(nc), G: t.Intn(40), P: map[string]string{}}
			switch t.Intn(4) {
			case 0:
				s.A = "bad_secret"
			case 1:
				s.P["scope"] = "admin photos users.write openid offline"
				s.P["audience"] = "https://evil.example"
				s.C = -1
			case 2:
				s.P["mutate"] = t.Pick([]string{"flipkey", "flipsig", "swapkey"})
				s.C = -1
			}
			steps = append(steps, s)
		case 7:
			s := Step{Op: "introspect", C: t.Intn(2), G: t.Intn(60), V: t.Pick([]string{"", "hint_right", "hint_wrong", "hint_garbage"})}
			switch t.Intn(10) {
			case 0:
				s.A = "bad_secret"
			case 1:
				s.A = "none"
			case 2:
				s.A, s.D = "bearer", int64(t.Intn(30))
			case 3:
				s.A = "bearer_same"
			}
			if t.Chance(25) {
				s.P = map[string]string{"scope": t.Pick([]string{"photos", "users.read", "admin", "openid photos", "mail.read"})}
			}
			steps = append(steps, s)
		case 8:
			steps = append(steps, Step{Op: "revoke", C: -1, G: t.Intn(60), V: t.Pick([]string{"", "hint_right", "hint_wrong", "hint_garbage"})})
		case 9:
			s := Step{Op: "revoke", C: t.Intn(nc), G: t.Intn(60), V: t.Pick([]string{"", "hint_right", "hint_wrong"})}
			switch t.Intn(3) {
			case 0:
				s.A = "bad_secret"
			case 1:
				s.A = "none"
			}
			steps = append(steps, s)
		case 10:
			steps = append(steps, advance(t))
		case 11:
			steps = append(steps, st("password", t.Intn(2), 0, "scope", pickScopes(t, 0, 70)))
			rts++
		case 12:
			steps = append(steps, st("client_credentials", t.Intn(nc), 0, "scope", pickScopes(t, 0, 30)))
		}
	}
	return steps
}

// Profiles ---------------------------------------------------------------

type PropSpec struct {
	ID             string
	Profiles       []string
	Characteristic []string // probe prefixes: a run is non-trivial for the property if it hit at least one
	Rule           string
	Level          string
	Enumerate      func(t *testing.T, job *Job, out *WorkerOut, found map[string]*Found) map[string]interface{}
}

var PropSpecs = map[string]*PropSpec{}

func regProp(p *PropSpec) { PropSpecs[p.ID] = p }

type Profile struct {
	Name string
	Prop string
	Gen  func(t *Tape) *Plan
}

var Profiles = map[string]*Profile{}

func reg(p *Profile) { Profiles[p.Name] = p }

func init() {
	regProp(&PropSpec{ID: "C01", Profiles: []string{"c01"}, Characteristic: []string{"code-replay"}, Level: "exploration",
		Rule: "seeded sequential histories (authorize/redeem/refresh/revoke/introspect/advance, 3 clients, code+hybrid flows, swarm config); non-trivial = the history replays an already-redeemed code at least once; distinct = distinct abstract history shape x store x token strategy"})
	reg(&Profile{Name: "c01", Prop: "C01", Gen: func(t *Tape) *Plan {
		k := swarmKnobs(t)
		m := mix{authz: 14, hybrid: 6, redeem: 22, redeemBad: 4, refresh: 14, refreshOld: 2, refreshForeign: 1, introspect: 6, revoke: 3, revokeBad: 1, advance: 8, pkce: 25}
		return &Plan{Profile: "c01", Prop: "C01", K: k, Steps: genHistory(t, &k, m, t.Range(12, 45))}
	}})
}
