package sim

import (
	"context"
	"errors"
	"fmt"
	"net/url"
	"reflect"
	"sort"
	"strings"
	"time"

	jose "github.com/go-jose/go-jose/v3"

	"github.com/ory/fosite"
	"github.com/ory/fosite/storage"
)

// ---------------------------------------------------------------------------
// Task context: travels in the context.Context that the simulated application hands to fosite.

type taskKeyT struct{}

var taskKey = taskKeyT{}

type TaskCtx struct {
	ID    int
	Calls int      // number of storage calls made by this request so far
	Trace []string // storage-call trace of this request: name[:err]
	InTx  bool
	Conc  *ctask // set when the request runs as a scheduled task of a concurrent phase
}

func WithTask(ctx context.Context, t *TaskCtx) context.Context {
	return context.WithValue(ctx, taskKey, t)
}
func TaskOf(ctx context.Context) *TaskCtx {
	if t, ok := ctx.Value(taskKey).(*TaskCtx); ok {
		return t
	}
	return nil
}

type CallInfo struct {
	Task  *TaskCtx
	Idx   int // index within the request
	Name  string
	Keys  []string
	Req   fosite.Requester
	Write bool
}

// crashSentinel is panicked by the fault layer to abandon a request at a storage-call boundary.
type crashSentinel struct{ At string }

type Hooks struct {
	// Before may yield to the scheduler, return an injected error (call not executed) or panic(crashSentinel).
	Before func(ci *CallInfo) error
	// After sees the real result; may turn success into an error (lost ack) or panic(crashSentinel).
	After func(ci *CallInfo, err error) error
	// Observe is called for every call with its arguments (secret-leak monitors, write log).
	Observe func(ci *CallInfo)
}

// Proxy implements every storage interface fosite type-asserts and delegates to the real MemoryStore.
type Proxy struct {
	M        *storage.MemoryStore
	Variant  string
	Copy     bool // DB-like: records deep-copied on write and read
	Contract bool // device codes: invalidated => kept, returned with ErrInvalidatedDeviceCode
	H        Hooks

	invalidDevice map[string]fosite.DeviceRequester
	WriteLog      []string // global log of write calls "name key" (for C10 no-write oracle)
	TotalCalls    int
	txOpen        bool
	txID          int
	OutsideTx     []string // writes issued during an open transaction with a context that does not carry it
	txSnap        *snapshot
	TxTrace       []string          // BEGIN / COMMIT / ROLLBACK / ops within tx, per world (reset by executor per request)
	TxFail        map[string]string // "begin"|"commit"|"rollback" -> error kind to inject once
}

func NewProxy(m *storage.MemoryStore, variant string) *Proxy {
	p := &Proxy{M: m, Variant: variant, invalidDevice: map[string]fosite.DeviceRequester{}, TxFail: map[string]string{}}
	switch variant {
	case "tx":
		p.Copy = true
	case "txc":
		p.Copy = true
		p.Contract = true
	case "contract":
		p.Contract = true
	}
	return p
}

// txCtxKey: the transaction travels in the context BeginTX returns (as with database/sql-backed stores): a statement issued
// with a context that does not carry it runs outside the transaction - the database applies it on its own and a later
// rollback does not undo it.
type txCtxKey struct{}

func (p *Proxy) do(ctx context.Context, name string, keys []string, req fosite.Requester, write bool, fn func() error) error {
	if p.txOpen && write && name != "BeginTX" && name != "Commit" && name != "Rollback" {
		if id, _ := ctx.Value(txCtxKey{}).(int); id != p.txID {
			// auto-commit semantics: apply the write to the pre-transaction state as well, so that it survives a rollback
			p.OutsideTx = append(p.OutsideTx, name)
			live := p.snap()
			p.restore(p.txSnap)
			_ = fn()
			p.txSnap = p.snap()
			p.restore(live)
		}
	}
	t := TaskOf(ctx)
	ci := &CallInfo{Task: t, Name: name, Keys: keys, Req: req, Write: write}
	if t != nil {
		ci.Idx = t.Calls
		t.Calls++
	}
	p.TotalCalls++
	if p.H.Observe != nil {
		p.H.Observe(ci)
	}
	if p.H.Before != nil {
		if err := p.H.Before(ci); err != nil {
			p.trace(t, name, err)
			return err
		}
	}
	err := fn()
	if write && err == nil {
		p.WriteLog = append(p.WriteLog, name+" "+strings.Join(keys, ","))
	}
	if p.H.After != nil {
		err = p.H.After(ci, err)
	}
	p.trace(t, name, err)
	return err
}

func (p *Proxy) trace(t *TaskCtx, name string, err error) {
	s := name
	if err != nil {
		switch {
		case errors.Is(err, fosite.ErrNotFound):
			s += ":NF" // sentinel answers ("no such record") are not failed operations
		case errors.Is(err, fosite.ErrInactiveToken), errors.Is(err, fosite.ErrInvalidatedAuthorizeCode), errors.Is(err, fosite.ErrInvalidatedDeviceCode):
			s += ":INACTIVE"
		default:
			s += ":ERR"
		}
	}
	if t != nil {
		t.Trace = append(t.Trace, s)
	}
	if p.txOpen {
		p.TxTrace = append(p.TxTrace, s)
	}
}

// --- cloning (DB-like store) ------------------------------------------------

func cloneArgs(a fosite.Arguments) fosite.Arguments {
	if a == nil {
		return nil
	}
	return append(fosite.Arguments{}, a...)
}
func cloneValues(v url.Values) url.Values {
	if v == nil {
		return nil
	}
	o := url.Values{}
	for k, x := range v {
		o[k] = append([]string{}, x...)
	}
	return o
}
func cloneRequest(r *fosite.Request) fosite.Request {
	c := *r
	c.RequestedScope = cloneArgs(r.RequestedScope)
	c.GrantedScope = cloneArgs(r.GrantedScope)
	c.RequestedAudience = cloneArgs(r.RequestedAudience)
	c.GrantedAudience = cloneArgs(r.GrantedAudience)
	c.Form = cloneValues(r.Form)
	if r.Session != nil && !reflect.ValueOf(r.Session).IsNil() {
		c.Session = r.Session.Clone()
	}
	return c
}

// CloneRequester deep-copies the record types fosite hands to / receives from a store.
func CloneRequester(r fosite.Requester) fosite.Requester {
	switch t := r.(type) {
	case nil:
		return nil
	case *fosite.Request:
		c := cloneRequest(t)
		return &c
	case *fosite.AccessRequest:
		c := *t
		c.GrantTypes = cloneArgs(t.GrantTypes)
		c.HandledGrantType = cloneArgs(t.HandledGrantType)
		c.Request = cloneRequest(&t.Request)
		return &c
	case *fosite.AuthorizeRequest:
		c := *t
		c.ResponseTypes = cloneArgs(t.ResponseTypes)
		c.HandledResponseTypes = cloneArgs(t.HandledResponseTypes)
		if t.RedirectURI != nil {
			u := *t.RedirectURI
			c.RedirectURI = &u
		}
		c.Request = cloneRequest(&t.Request)
		return &c
	case *fosite.DeviceRequest:
		c := *t
		c.Request = cloneRequest(&t.Request)
		return &c
	case storage.StoreAuthorizeCode:
		return CloneRequester(t.Requester)
	case storage.StoreRefreshToken:
		return CloneRequester(t.Requester)
	}
	panic(fmt.Sprintf("CloneRequester: unexpected record type %T", r))
}

func (p *Proxy) in(r fosite.Requester) fosite.Requester {
	if p.Copy {
		return CloneRequester(r)
	}
	return r
}
func (p *Proxy) out(r fosite.Requester) fosite.Requester {
	if p.Copy && r != nil {
		return CloneRequester(r)
	}
	return r
}

// --- ClientManager ----------------------------------------------------------

func (p *Proxy) GetClient(ctx context.Context, id string) (c fosite.Client, err error) {
	err = p.do(ctx, "GetClient", []string{id}, nil, false, func() error { c, err = p.M.GetClient(ctx, id); return err })
	if err != nil {
		return nil, err
	}
	return c, nil
}
func (p *Proxy) ClientAssertionJWTValid(ctx context.Context, jti string) error {
	return p.do(ctx, "ClientAssertionJWTValid", []string{jti}, nil, false, func() error { return p.M.ClientAssertionJWTValid(ctx, jti) })
}
func (p *Proxy) SetClientAssertionJWT(ctx context.Context, jti string, exp time.Time) error {
	return p.do(ctx, "SetClientAssertionJWT", []string{jti}, nil, true, func() error { return p.M.SetClientAssertionJWT(ctx, jti, exp) })
}

// --- authorize codes --------------------------------------------------------

func (p *Proxy) CreateAuthorizeCodeSession(ctx context.Context, code string, req fosite.Requester) error {
	return p.do(ctx, "CreateAuthorizeCodeSession", []string{code}, req, true, func() error { return p.M.CreateAuthorizeCodeSession(ctx, code, p.in(req)) })
}
func (p *Proxy) GetAuthorizeCodeSession(ctx context.Context, code string, s fosite.Session) (r fosite.Requester, err error) {
	err = p.do(ctx, "GetAuthorizeCodeSession", []string{code}, nil, false, func() error { r, err = p.M.GetAuthorizeCodeSession(ctx, code, s); return err })
	if r == nil {
		return nil, err
	}
	return p.out(r), err
}
func (p *Proxy) InvalidateAuthorizeCodeSession(ctx context.Context, code string) error {
	return p.do(ctx, "InvalidateAuthorizeCodeSession", []string{code}, nil, true, func() error { return p.M.InvalidateAuthorizeCodeSession(ctx, code) })
}

// --- PKCE ------------------------------------------------------------------

func (p *Proxy) CreatePKCERequestSession(ctx context.Context, sig string, req fosite.Requester) error {
	return p.do(ctx, "CreatePKCERequestSession", []string{sig}, req, true, func() error { return p.M.CreatePKCERequestSession(ctx, sig, p.in(req)) })
}
func (p *Proxy) GetPKCERequestSession(ctx context.Context, sig string, s fosite.Session) (r fosite.Requester, err error) {
	err = p.do(ctx, "GetPKCERequestSession", []string{sig}, nil, false, func() error { r, err = p.M.GetPKCERequestSession(ctx, sig, s); return err })
	if r == nil {
		return nil, err
	}
	return p.out(r), err
}
func (p *Proxy) DeletePKCERequestSession(ctx context.Context, sig string) error {
	return p.do(ctx, "DeletePKCERequestSession", []string{sig}, nil, true, func() error { return p.M.DeletePKCERequestSession(ctx, sig) })
}

// --- OIDC ------------------------------------------------------------------

func (p *Proxy) CreateOpenIDConnectSession(ctx context.Context, code string, req fosite.Requester) error {
	return p.do(ctx, "CreateOpenIDConnectSession", []string{code}, req, true, func() error { return p.M.CreateOpenIDConnectSession(ctx, code, p.in(req)) })
}
func (p *Proxy) GetOpenIDConnectSession(ctx context.Context, code string, req fosite.Requester) (r fosite.Requester, err error) {
	err = p.do(ctx, "GetOpenIDConnectSession", []string{code}, nil, false, func() error { r, err = p.M.GetOpenIDConnectSession(ctx, code, req); return err })
	if r == nil {
		return nil, err
	}
	return p.out(r), err
}
func (p *Proxy) DeleteOpenIDConnectSession(ctx context.Context, code string) error {
	return p.do(ctx, "DeleteOpenIDConnectSession", []string{code}, nil, true, func() error { return p.M.DeleteOpenIDConnectSession(ctx, code) })
}

// --- access tokens ----------------------------------------------------------

func (p *Proxy) CreateAccessTokenSession(ctx context.Context, sig string, req fosite.Requester) error {
	return p.do(ctx, "CreateAccessTokenSession", []string{sig}, req, true, func() error { return p.M.CreateAccessTokenSession(ctx, sig, p.in(req)) })
}
func (p *Proxy) GetAccessTokenSession(ctx context.Context, sig string, s fosite.Session) (r fosite.Requester, err error) {
	err = p.do(ctx, "GetAccessTokenSession", []string{sig}, nil, false, func() error { r, err = p.M.GetAccessTokenSession(ctx, sig, s); return err })
	if r == nil {
		return nil, err
	}
	return p.out(r), err
}
func (p *Proxy) DeleteAccessTokenSession(ctx context.Context, sig string) error {
	return p.do(ctx, "DeleteAccessTokenSession", []string{sig}, nil, true, func() error { return p.M.DeleteAccessTokenSession(ctx, sig) })
}

// --- refresh tokens ---------------------------------------------------------

func (p *Proxy) CreateRefreshTokenSession(ctx context.Context, sig, atSig string, req fosite.Requester) error {
	return p.do(ctx, "CreateRefreshTokenSession", []string{sig, atSig}, req, true, func() error { return p.M.CreateRefreshTokenSession(ctx, sig, atSig, p.in(req)) })
}
func (p *Proxy) GetRefreshTokenSession(ctx context.Context, sig string, s fosite.Session) (r fosite.Requester, err error) {
	err = p.do(ctx, "GetRefreshTokenSession", []string{sig}, nil, false, func() error { r, err = p.M.GetRefreshTokenSession(ctx, sig, s); return err })
	if r == nil {
		return nil, err
	}
	return p.out(r), err
}
func (p *Proxy) DeleteRefreshTokenSession(ctx context.Context, sig string) error {
	return p.do(ctx, "DeleteRefreshTokenSession", []string{sig}, nil, true, func() error { return p.M.DeleteRefreshTokenSession(ctx, sig) })
}
func (p *Proxy) RotateRefreshToken(ctx context.Context, requestID, sig string) error {
	return p.do(ctx, "RotateRefreshToken", []string{requestID, sig}, nil, true, func() error { return p.M.RotateRefreshToken(ctx, requestID, sig) })
}
func (p *Proxy) RevokeRefreshToken(ctx context.Context, requestID string) error {
	return p.do(ctx, "RevokeRefreshToken", []string{requestID}, nil, true, func() error { return p.M.RevokeRefreshToken(ctx, requestID) })
}
func (p *Proxy) RevokeAccessToken(ctx context.Context, requestID string) error {
	return p.do(ctx, "RevokeAccessToken", []string{requestID}, nil, true, func() error { return p.M.RevokeAccessToken(ctx, requestID) })
}

// --- ROPC ------------------------------------------------------------------

func (p *Proxy) Authenticate(ctx context.Context, name, secret string) (sub string, err error) {
	// name/secret are user credentials handed to the application's own user store, not a token table:
	// they are not scanned by the storage-secret monitor (Keys left empty on purpose).
	err = p.do(ctx, "Authenticate", nil, nil, false, func() error { sub, err = p.M.Authenticate(ctx, name, secret); return err })
	return sub, err
}

// --- RFC 7523 ---------------------------------------------------------------

func (p *Proxy) GetPublicKey(ctx context.Context, iss, sub, kid string) (k *jose.JSONWebKey, err error) {
	err = p.do(ctx, "GetPublicKey", []string{iss, sub, kid}, nil, false, func() error { k, err = p.M.GetPublicKey(ctx, iss, sub, kid); return err })
	return k, err
}
func (p *Proxy) GetPublicKeys(ctx context.Context, iss, sub string) (k *jose.JSONWebKeySet, err error) {
	err = p.do(ctx, "GetPublicKeys", []string{iss, sub}, nil, false, func() error {
		k, err = p.M.GetPublicKeys(ctx, iss, sub)
		if k != nil { // map iteration order inside the reference store: canonicalise
			sort.Slice(k.Keys, func(i, j int) bool { return k.Keys[i].KeyID < k.Keys[j].KeyID })
		}
		return err
	})
	return k, err
}
func (p *Proxy) GetPublicKeyScopes(ctx context.Context, iss, sub, kid string) (s []string, err error) {
	err = p.do(ctx, "GetPublicKeyScopes", []string{iss, sub, kid}, nil, false, func() error { s, err = p.M.GetPublicKeyScopes(ctx, iss, sub, kid); return err })
	return s, err
}
func (p *Proxy) IsJWTUsed(ctx context.Context, jti string) (u bool, err error) {
	err = p.do(ctx, "IsJWTUsed", []string{jti}, nil, false, func() error { u, err = p.M.IsJWTUsed(ctx, jti); return err })
	return u, err
}
func (p *Proxy) MarkJWTUsedForTime(ctx context.Context, jti string, exp time.Time) error {
	return p.do(ctx, "MarkJWTUsedForTime", []string{jti}, nil, true, func() error { return p.M.MarkJWTUsedForTime(ctx, jti, exp) })
}

// --- PAR -------------------------------------------------------------------

func (p *Proxy) CreatePARSession(ctx context.Context, uri string, req fosite.AuthorizeRequester) error {
	return p.do(ctx, "CreatePARSession", []string{uri}, req, true, func() error {
		if p.Copy {
			return p.M.CreatePARSession(ctx, uri, CloneRequester(req).(fosite.AuthorizeRequester))
		}
		return p.M.CreatePARSession(ctx, uri, req)
	})
}
func (p *Proxy) GetPARSession(ctx context.Context, uri string) (r fosite.AuthorizeRequester, err error) {
	err = p.do(ctx, "GetPARSession", []string{uri}, nil, false, func() error { r, err = p.M.GetPARSession(ctx, uri); return err })
	if r == nil || err != nil {
		return nil, err
	}
	if p.Copy {
		return CloneRequester(r).(fosite.AuthorizeRequester), nil
	}
	return r, nil
}
func (p *Proxy) DeletePARSession(ctx context.Context, uri string) error {
	return p.do(ctx, "DeletePARSession", []string{uri}, nil, true, func() error { return p.M.DeletePARSession(ctx, uri) })
}

// --- RFC 8628 ---------------------------------------------------------------

func (p *Proxy) CreateDeviceAuthSession(ctx context.Context, dSig, uSig string, req fosite.DeviceRequester) error {
	return p.do(ctx, "CreateDeviceAuthSession", []string{dSig, uSig}, req, true, func() error {
		if p.Copy {
			return p.M.CreateDeviceAuthSession(ctx, dSig, uSig, CloneRequester(req).(fosite.DeviceRequester))
		}
		return p.M.CreateDeviceAuthSession(ctx, dSig, uSig, req)
	})
}
func (p *Proxy) GetDeviceCodeSession(ctx context.Context, sig string, s fosite.Session) (r fosite.DeviceRequester, err error) {
	err = p.do(ctx, "GetDeviceCodeSession", []string{sig}, nil, false, func() error {
		if p.Contract {
			if old, ok := p.invalidDevice[sig]; ok {
				r = old
				return fosite.ErrInvalidatedDeviceCode
			}
		}
		r, err = p.M.GetDeviceCodeSession(ctx, sig, s)
		return err
	})
	if r == nil {
		return nil, err
	}
	if p.Copy {
		return CloneRequester(r).(fosite.DeviceRequester), err
	}
	return r, err
}
func (p *Proxy) InvalidateDeviceCodeSession(ctx context.Context, sig string) error {
	return p.do(ctx, "InvalidateDeviceCodeSession", []string{sig}, nil, true, func() error {
		if p.Contract {
			if r, err := p.M.GetDeviceCodeSession(ctx, sig, nil); err == nil {
				p.invalidDevice[sig] = r
			}
		}
		return p.M.InvalidateDeviceCodeSession(ctx, sig)
	})
}

// UpdateDeviceAuth is what the application's verification page does after the user decided: it persists the
// decision (and who decided) on the device request. With the reference store the record is shared by pointer.
func (p *Proxy) UpdateDeviceAuth(ctx context.Context, sig string, fn func(r fosite.DeviceRequester)) error {
	r, ok := p.M.DeviceAuths[sig]
	if !ok {
		return fosite.ErrNotFound
	}
	fn(r)
	return nil
}

// --- transactions -----------------------------------------------------------

type snapshot struct {
	AuthorizeCodes         map[string]storage.StoreAuthorizeCode
	IDSessions             map[string]fosite.Requester
	AccessTokens           map[string]fosite.Requester
	RefreshTokens          map[string]storage.StoreRefreshToken
	DeviceAuths            map[string]fosite.DeviceRequester
	PKCES                  map[string]fosite.Requester
	BlacklistedJTIs        map[string]time.Time
	AccessTokenRequestIDs  map[string]string
	RefreshTokenRequestIDs map[string]string
	DeviceCodesRequestIDs  map[string]storage.DeviceAuthPair
	PARSessions            map[string]fosite.AuthorizeRequester
	invalidDevice          map[string]fosite.DeviceRequester
}

func cp[K comparable, V any](m map[K]V) map[K]V {
	o := make(map[K]V, len(m))
	for k, v := range m {
		o[k] = v
	}
	return o
}

func (p *Proxy) snap() *snapshot {
	m := p.M
	return &snapshot{cp(m.AuthorizeCodes), cp(m.IDSessions), cp(m.AccessTokens), cp(m.RefreshTokens), cp(m.DeviceAuths), cp(m.PKCES),
		cp(m.BlacklistedJTIs), cp(m.AccessTokenRequestIDs), cp(m.RefreshTokenRequestIDs), cp(m.DeviceCodesRequestIDs), cp(m.PARSessions), cp(p.invalidDevice)}
}
func (p *Proxy) restore(s *snapshot) {
	m := p.M
	m.AuthorizeCodes, m.IDSessions, m.AccessTokens, m.RefreshTokens = cp(s.AuthorizeCodes), cp(s.IDSessions), cp(s.AccessTokens), cp(s.RefreshTokens)
	m.DeviceAuths, m.PKCES, m.BlacklistedJTIs = cp(s.DeviceAuths), cp(s.PKCES), cp(s.BlacklistedJTIs)
	m.AccessTokenRequestIDs, m.RefreshTokenRequestIDs, m.DeviceCodesRequestIDs = cp(s.AccessTokenRequestIDs), cp(s.RefreshTokenRequestIDs), cp(s.DeviceCodesRequestIDs)
	m.PARSessions = cp(s.PARSessions)
	p.invalidDevice = cp(s.invalidDevice)
}

// AbortOpenTx is what a dropped DB connection does to an uncommitted transaction (crash / abandoned request).
func (p *Proxy) AbortOpenTx() bool {
	if p.txOpen {
		p.restore(p.txSnap)
		p.txOpen = false
		p.txSnap = nil
		return true
	}
	return false
}
func (p *Proxy) TxOpen() bool { return p.txOpen }

// TxProxy adds storage.Transactional to the proxy (only composed in for the tx variants).
type TxProxy struct{ *Proxy }

func (t *TxProxy) BeginTX(ctx context.Context) (context.Context, error) {
	p := t.Proxy
	var out context.Context = ctx
	err := p.do(ctx, "BeginTX", nil, nil, false, func() error {
		if p.txOpen {
			return fmt.Errorf("simstore: nested transaction")
		}
		p.txSnap = p.snap()
		p.txOpen = true
		p.txID++
		out = context.WithValue(ctx, txCtxKey{}, p.txID)
		p.TxTrace = append(p.TxTrace, "BEGIN")
		return nil
	})
	if err != nil {
		p.TxTrace = append(p.TxTrace, "BEGIN:ERR")
	}
	return out, err
}
func (t *TxProxy) Commit(ctx context.Context) error {
	p := t.Proxy
	err := p.do(ctx, "Commit", nil, nil, false, func() error {
		if !p.txOpen {
			return fmt.Errorf("simstore: commit without open transaction")
		}
		return nil
	})
	if err != nil {
		// a failed commit leaves the transaction open (the caller must roll back), like database/sql
		p.TxTrace = append(p.TxTrace, "COMMIT:ERR")
		return err
	}
	p.txOpen = false
	p.txSnap = nil
	p.TxTrace = append(p.TxTrace, "COMMIT")
	return nil
}
func (t *TxProxy) Rollback(ctx context.Context) error {
	p := t.Proxy
	err := p.do(ctx, "Rollback", nil, nil, false, func() error {
		if !p.txOpen {
			return fmt.Errorf("simstore: rollback without open transaction")
		}
		return nil
	})
	if err != nil {
		p.TxTrace = append(p.TxTrace, "ROLLBACK:ERR")
		// connection is gone: the database discards the transaction anyway
		p.AbortOpenTx()
		return err
	}
	p.restore(p.txSnap)
	p.txOpen = false
	p.txSnap = nil
	p.TxTrace = append(p.TxTrace, "ROLLBACK")
	return nil
}

var _ storage.Transactional = (*TxProxy)(nil)

// --- canonical dump (for "exactly as it was before") --------------------------

func dumpReq(r fosite.Requester) string {
	if r == nil {
		return "<nil>"
	}
	switch t := r.(type) {
	case storage.StoreAuthorizeCode:
		return fmt.Sprintf("active=%v %s", reflect.ValueOf(t).FieldByName("active").Bool(), dumpReq(t.Requester))
	case storage.StoreRefreshToken:
		v := reflect.ValueOf(t)
		return fmt.Sprintf("active=%v at=%s %s", v.FieldByName("active").Bool(), v.FieldByName("accessTokenSignature").String(), dumpReq(t.Requester))
	}
	var sb strings.Builder
	fmt.Fprintf(&sb, "id=%s client=%s at=%d req=%v granted=%v raud=%v gaud=%v form=%s", r.GetID(), r.GetClient().GetID(), r.GetRequestedAt().UnixNano(),
		r.GetRequestedScopes(), r.GetGrantedScopes(), r.GetRequestedAudience(), r.GetGrantedAudience(), r.GetRequestForm().Encode())
	if d, ok := r.(fosite.DeviceRequester); ok {
		fmt.Fprintf(&sb, " ucs=%d", d.GetUserCodeState())
	}
	if s := r.GetSession(); s != nil && !reflect.ValueOf(s).IsNil() {
		fmt.Fprintf(&sb, " sub=%s", s.GetSubject())
		for _, tt := range []fosite.TokenType{fosite.AccessToken, fosite.RefreshToken, fosite.AuthorizeCode, fosite.IDToken, fosite.DeviceCode, fosite.UserCode, fosite.PushedAuthorizeRequestContext} {
			if e := s.GetExpiresAt(tt); !e.IsZero() {
				fmt.Fprintf(&sb, " exp[%s]=%d", tt, e.UnixNano())
			}
		}
	}
	return sb.String()
}

func dumpMap[V any](sb *strings.Builder, name string, m map[string]V, f func(V) string) {
	ks := make([]string, 0, len(m))
	for k := range m {
		ks = append(ks, k)
	}
	sort.Strings(ks)
	for _, k := range ks {
		fmt.Fprintf(sb, "%s[%s] %s\n", name, k, f(m[k]))
	}
}

// DumpTables returns a canonical serialisation of every code/token table.
func (p *Proxy) DumpTables() string {
	m := p.M
	var sb strings.Builder
	dumpMap(&sb, "code", m.AuthorizeCodes, func(v storage.StoreAuthorizeCode) string { return dumpReq(v) })
	dumpMap(&sb, "oidc", m.IDSessions, func(v fosite.Requester) string { return dumpReq(v) })
	dumpMap(&sb, "at", m.AccessTokens, func(v fosite.Requester) string { return dumpReq(v) })
	dumpMap(&sb, "rt", m.RefreshTokens, func(v storage.StoreRefreshToken) string { return dumpReq(v) })
	dumpMap(&sb, "dev", m.DeviceAuths, func(v fosite.DeviceRequester) string { return dumpReq(v) })
	dumpMap(&sb, "pkce", m.PKCES, func(v fosite.Requester) string { return dumpReq(v) })
	dumpMap(&sb, "atid", m.AccessTokenRequestIDs, func(v string) string { return v })
	dumpMap(&sb, "rtid", m.RefreshTokenRequestIDs, func(v string) string { return v })
	dumpMap(&sb, "par", m.PARSessions, func(v fosite.AuthorizeRequester) string { return dumpReq(v) })
	dumpMap(&sb, "invdev", p.invalidDevice, func(v fosite.DeviceRequester) string { return dumpReq(v) })
	return sb.String()
}
