package sim

import "fmt"

// C10: client authentication at the four client-authenticated endpoints, every registration x transport x secret relation.

func c10Clients() []ClientSpec {
	scopes := []string{"openid", "offline", "photos", "mail.read"}
	aud := []string{"https://api.sim/v1"}
	grants := []string{"authorization_code", "refresh_token", "password", "client_credentials", grantDevice, grantJWTBearer}
	mk := func(c ClientSpec) ClientSpec {
		c.RedirectURIs = []string{"https://" + c.ID + ".sim/cb"}
		c.GrantTypes, c.Scopes, c.Audience = grants, scopes, aud
		c.ResponseTypes = []string{"code"}
		return c
	}
	return []ClientSpec{
		mk(ClientSpec{ID: "plain-pub", Public: true}),
		mk(ClientSpec{ID: "plain-conf", Secret: "plain-conf-secret", Rotated: []string{"plain-conf-old-1", "plain-conf-old-2"}}),
		mk(ClientSpec{ID: "enc:client", Secret: "p@ss&word=%+ é"}),
		mk(ClientSpec{ID: "oidc-basic", Secret: "oidc-basic-secret", OIDC: true, AuthMethod: "client_secret_basic", Rotated: []string{"oidc-basic-old"}}),
		mk(ClientSpec{ID: "oidc-post", Secret: "oidc-post-secret", OIDC: true, AuthMethod: "client_secret_post"}),
		mk(ClientSpec{ID: "oidc-none", Public: true, OIDC: true, AuthMethod: "none"}),
		// registered with a secret (confidential) but with the method "none": no presentation proves anything, nothing is valid
		mk(ClientSpec{ID: "oidc-none-conf", Secret: "oidc-none-conf-secret", OIDC: true, AuthMethod: "none"}),
		mk(ClientSpec{ID: "oidc-pub-basic", Public: true, OIDC: true, AuthMethod: "client_secret_basic"}),
		mk(ClientSpec{ID: "oidc-jwt", OIDC: true, AuthMethod: "private_key_jwt", KeyName: "rsa2", AuthAlg: "RS256"}),
		mk(ClientSpec{ID: "oidc-jwt-ec", OIDC: true, AuthMethod: "private_key_jwt", KeyName: "ec_p256_0", AuthAlg: "ES256"}),
		mk(ClientSpec{ID: "oidc-csjwt", Secret: "oidc-csjwt-secret", OIDC: true, AuthMethod: "client_secret_jwt"}),
	}
}

var c10AuthVariants = []string{"", "", "", "bad_secret", "empty_secret", "other_secret", "rotated", "post", "basic", "both", "split", "split", "none", "unknown_client", "malformed_header", "bad_urlencoding",
	"assert:ok", "assert:wrong_key", "assert:alg_none", "assert:alg_hs256", "assert:iss_wrong", "assert:aud_wrong", "assert:expired", "assert:jti_missing", "assert:other_clients_key"}

func init() {
	reg(&Profile{Name: "c10", Prop: "C10", Gen: func(t *Tape) *Plan {
		k := Knobs{Clients: c10Clients(), Users: map[string]string{"peter": "peters-password"}, Store: t.Pick([]string{"plain", "plain", "tx"}), BearerKeys: bearerKeys()}
		k.JWTAccess = t.Chance(30)
		k.RefreshScopesSet, k.RefreshScopes = true, []string{}
		k.JWTBearerSkipClientAuth = t.Chance(15)
		nc := len(k.Clients)
		var steps []Step
		// a few live credentials per run so that rejected requests have something to invalidate
		for i := 0; i < t.Range(2, 4); i++ {
			c := t.Intn(nc)
			steps = append(steps, st("authz", c, 0, "scope", "offline photos"), Step{Op: "redeem", C: -1, G: i})
			if t.Chance(50) {
				steps = append(steps, st("device_authz", c, 0, "scope", "offline photos"), Step{Op: "device_decide", G: 50, V: "accept"})
			}
		}
		n := t.Range(14, 44)
		for len(steps) < n {
			a := t.Pick(c10AuthVariants)
			c := t.Intn(nc)
			var s Step
			switch t.Intn(10) {
			case 0:
				s = st("client_credentials", c, 0, "scope", t.Pick([]string{"photos", "photos", "", ""}), "aud", t.Pick([]string{"", "", "https://api.sim/v1"}))
			case 1:
				s = st("password", c, 0, "scope", "offline photos")
			case 2:
				s = Step{Op: "refresh", C: t.Pick2(-1, c), G: t.Intn(8), V: "latest"}
			case 3:
				s = Step{Op: "redeem", C: t.Pick2(-1, c), G: t.Intn(8)}
			case 4:
				s = st("device_authz", c, 0, "scope", "photos")
			case 5:
				s = Step{Op: "device_token", C: t.Pick2(-1, c), G: t.Intn(4)}
			case 6:
				s = Step{Op: "revoke", C: t.Pick2(-1, c), G: t.Intn(12)}
			case 7:
				s = st("par_push", c, 0, "scope", "photos")
			case 8:
				s = Step{Op: "jwt_bearer", C: c, D: int64(t.Intn(2)), P: map[string]string{"scope": "photos"}}
			case 9:
				s = st("authz", c, 0, "scope", "offline photos")
				a = ""
			}
			s.A = a
			if (s.Op == "par_push" || s.Op == "device_authz") && t.Chance(14) {
				s.A = t.Pick([]string{"as_other", "as_other_query"}) // these two endpoints take the client from the body's client_id: it must be the authenticated one
			}
			steps = append(steps, s)
			if t.Chance(6) {
				steps = append(steps, Step{Op: "client_change", C: c, V: fmt.Sprintf("rotate_secret:rotated-in-run-%d", len(steps))})
			}
		}
		return &Plan{Profile: "c10", Prop: "C10", K: k, Steps: steps}
	}})
	regProp(&PropSpec{ID: "C10", Profiles: []string{"c10"}, Characteristic: []string{"bad-client-auth:"}})
}
