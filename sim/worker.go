package sim

import (
	"encoding/json"
	"fmt"
	"os"
	"path/filepath"
	"sort"
	"strings"
	"testing"
	"time"
)

// Job is what the check driver hands to one worker process.
type Job struct {
	Property  string   `json:"property"`
	Profiles  []string `json:"profiles"`
	Seed      uint64   `json:"seed"`
	Worker    int      `json:"worker"`
	Workers   int      `json:"workers"`
	Runs      int      `json:"runs"`     // max runs for this worker
	BudgetS   float64  `json:"budget_s"` // wall-clock budget
	Out       string   `json:"out"`
	ReplayDir string   `json:"replay_dir"`
	Minimise  bool     `json:"minimise"`
	Tier      string   `json:"tier"`
}

type Found struct {
	Sig     string `json:"sig"`
	Prop    string `json:"property"`
	Detail  string `json:"detail"`
	Seed    uint64 `json:"seed"`
	Profile string `json:"profile"`
	Replay  string `json:"replay"`
	Count   int    `json:"count"`
	Steps   int    `json:"steps_minimised"`
	From    int    `json:"steps_original"`
}

type WorkerOut struct {
	Property     string                 `json:"property"`
	Worker       int                    `json:"worker"`
	Runs         int                    `json:"runs"`
	Steps        int                    `json:"steps"`
	WallS        float64                `json:"wall_s"`
	SimS         float64                `json:"sim_s"`
	Found        []*Found               `json:"found"`
	Other        map[string]int         `json:"other_property_signals"`
	Sanity       []string               `json:"sanity"`
	SanityRuns   int                    `json:"sanity_runs"`
	Panics       []string               `json:"panics"`
	Stats        map[string]int         `json:"stats"`
	Probes       map[string]int         `json:"probes"`
	States       []string               `json:"states"`
	Shapes       []string               `json:"shapes"` // hashes of nontrivial history shapes
	Nontrivial   int                    `json:"nontrivial_runs"`
	Samples      []json.RawMessage      `json:"samples"`
	StoreCalls   int                    `json:"store_calls"`
	EntropyDraws int                    `json:"entropy_draws"`
	FirstSeed    uint64                 `json:"first_seed"`
	LastSeed     uint64                 `json:"last_seed"`
	Exhaustive   map[string]interface{} `json:"exhaustive,omitempty"`
	Nondet       []string               `json:"nondeterminism,omitempty"` // a violation that did not re-execute identically: harness trouble, never a VIOLATION
}

// firstLogDiff names the first event-log line at which two executions of one plan differ.
func firstLogDiff(a, b []string) string {
	for i := 0; i < len(a) || i < len(b); i++ {
		var x, y string
		if i < len(a) {
			x = a[i]
		}
		if i < len(b) {
			y = b[i]
		}
		if x != y {
			return fmt.Sprintf("line %d: %q vs %q", i, truncate(x, 200), truncate(y, 200))
		}
	}
	return "logs identical"
}

type ReplayFile struct {
	Property  string   `json:"property"`
	Sig       string   `json:"signature"`
	Detail    string   `json:"detail"`
	Seed      uint64   `json:"seed"`
	LogHash   string   `json:"log_hash"`
	Plan      *Plan    `json:"plan"`
	Log       []string `json:"event_log"`
	OrigSteps int      `json:"original_steps"`
}

func hasSig(res *Result, prop, sig string) bool {
	for _, v := range res.Violations {
		if v.Prop == prop && v.Sig() == sig {
			return true
		}
	}
	return false
}

// minimise: delta debugging over the plan; a candidate is kept only if it reproduces the same violation signature.
func minimise(t *testing.T, plan *Plan, prop, sig string, budget int) *Plan {
	cur := clonePlan(plan)
	tries := 0
	try := func(p *Plan) bool {
		if tries >= budget {
			return false
		}
		tries++
		return hasSig(Execute(t, p), prop, sig)
	}
	// 1. remove chunks, then single steps
	for chunk := len(cur.Steps) / 2; chunk >= 1; chunk /= 2 {
		for i := 0; i+chunk <= len(cur.Steps); {
			cand := clonePlan(cur)
			cand.Steps = append(append([]Step{}, cur.Steps[:i]...), cur.Steps[i+chunk:]...)
			if len(cand.Steps) > 0 && try(cand) {
				cur = cand
			} else {
				i += chunk
			}
		}
	}
	// 2. drop faults, simplify literals
	for i := range cur.Steps {
		if cur.Steps[i].F != nil {
			cand := clonePlan(cur)
			cand.Steps[i].F = nil
			if try(cand) {
				cur = cand
			}
		}
		if cur.Steps[i].Op == "advance" && cur.Steps[i].V == "" && cur.Steps[i].D > 1000 {
			for _, d := range []int64{1000, 60000, 3600000} {
				if d < cur.Steps[i].D {
					cand := clonePlan(cur)
					cand.Steps[i].D = d
					if try(cand) {
						cur = cand
						break
					}
				}
			}
		}
		for k := range cur.Steps[i].P {
			cand := clonePlan(cur)
			delete(cand.Steps[i].P, k)
			if try(cand) {
				cur = cand
			}
		}
		// selectors: prefer the first credentials; presentation: prefer the plain one
		if cur.Steps[i].G > 2 || cur.Steps[i].G < -1 {
			for _, g := range []int{0, 1, 2} {
				cand := clonePlan(cur)
				cand.Steps[i].G = g
				if try(cand) {
					cur = cand
					break
				}
			}
		}
		if cur.Steps[i].A != "" {
			cand := clonePlan(cur)
			cand.Steps[i].A = ""
			if try(cand) {
				cur = cand
			}
		}
		if len(cur.Steps[i].S) > 0 {
			cand := clonePlan(cur)
			cand.Steps[i].S = nil // "run the first runnable task to completion"
			if try(cand) {
				cur = cand
			}
		}
	}
	// a second pass of single-step removal: simplified selectors often make more steps redundant
	for i := 0; i < len(cur.Steps); {
		cand := clonePlan(cur)
		cand.Steps = append(append([]Step{}, cur.Steps[:i]...), cur.Steps[i+1:]...)
		if len(cand.Steps) > 0 && try(cand) {
			cur = cand
		} else {
			i++
		}
	}
	// 3. simplify configuration knobs towards defaults
	simplify := []func(k *Knobs){
		func(k *Knobs) { k.JWTAccess = false },
		func(k *Knobs) { k.Store = "plain" },
		func(k *Knobs) { k.ATLife, k.RTLife, k.CodeLife, k.IDLife = 0, 0, 0, 0 },
		func(k *Knobs) { k.RefreshScopesSet, k.RefreshScopes = false, nil },
		func(k *Knobs) { k.IDKey = "" },
		func(k *Knobs) { k.Secret = "" },
		func(k *Knobs) { k.DisableRTValidation = false },
		func(k *Knobs) { k.LegacyRevocationHandler = false },
		func(k *Knobs) { k.Debug = false; k.LegacyErrors = false },
	}
	for _, f := range simplify {
		cand := clonePlan(cur)
		f(&cand.K)
		if try(cand) {
			cur = cand
		}
	}
	return cur
}

func clonePlan(p *Plan) *Plan {
	b, _ := json.Marshal(p)
	var o Plan
	_ = json.Unmarshal(b, &o)
	return &o
}

func writeReplay(dir string, prop string, v Violation, plan *Plan, res *Result, orig int) string {
	_ = os.MkdirAll(dir, 0o755)
	rf := &ReplayFile{Property: prop, Sig: v.Sig(), Detail: v.Detail, Seed: plan.Seed, LogHash: res.LogHash, Plan: plan, Log: res.Log, OrigSteps: orig}
	b, _ := json.MarshalIndent(rf, "", " ")
	name := fmt.Sprintf("%s-%s.json", prop, shortHash(v.Sig()))
	path := filepath.Join(dir, name)
	_ = os.WriteFile(path, b, 0o644)
	return path
}

func compactPlan(p *Plan) json.RawMessage {
	var parts []string
	for _, s := range p.Steps {
		x := s.Op
		if s.V != "" {
			x += "/" + s.V
		}
		if s.A != "" {
			x += "/auth=" + s.A
		}
		if s.F != nil {
			x += fmt.Sprintf("/fault=%s@%d", s.F.Kind, s.F.At)
		}
		var ks []string
		for k, v := range s.P {
			ks = append(ks, k+"="+v)
		}
		sort.Strings(ks)
		if len(ks) > 0 {
			x += "{" + strings.Join(ks, ",") + "}"
		}
		parts = append(parts, x)
	}
	m := map[string]interface{}{"seed": p.Seed, "profile": p.Profile, "store": p.K.Store, "jwt_access": p.K.JWTAccess, "steps": parts}
	b, _ := json.Marshal(m)
	return b
}

func workerSeed(base uint64, worker, i int) uint64 {
	return mix64(base*1000003+uint64(worker)*7919) + uint64(i)
}

func RunWorker(t *testing.T) {
	path := os.Getenv("SIM_JOB")
	if path == "" {
		t.Skip("SIM_JOB not set")
	}
	b, err := os.ReadFile(path)
	if err != nil {
		t.Fatal(err)
	}
	var job Job
	if err := json.Unmarshal(b, &job); err != nil {
		t.Fatal(err)
	}
	out := &WorkerOut{Property: job.Property, Worker: job.Worker, Other: map[string]int{}, Stats: map[string]int{}, Probes: map[string]int{}}
	spec := PropSpecs[job.Property]
	start := time.Now()
	found := map[string]*Found{}
	states := map[string]bool{}
	shapes := map[string]bool{}
	deadline := start.Add(time.Duration(job.BudgetS * float64(time.Second)))

	// deterministic (non-sampled) parts first: enumerations registered for the property
	if spec != nil && spec.Enumerate != nil {
		out.Exhaustive = spec.Enumerate(t, &job, out, found) // sharded across workers by case index
	}

	for i := 0; i < job.Runs && time.Now().Before(deadline); i++ {
		seed := workerSeed(job.Seed, job.Worker, i)
		if i == 0 {
			out.FirstSeed = seed
		}
		out.LastSeed = seed
		prof := Profiles[job.Profiles[i%len(job.Profiles)]]
		plan := prof.Gen(NewTape(seed))
		plan.Seed = seed
		res := Execute(t, plan)
		absorb(t, &job, out, found, states, shapes, spec, plan, res)
	}
	out.WallS = time.Since(start).Seconds()
	for s := range states {
		out.States = append(out.States, s)
	}
	for s := range shapes {
		out.Shapes = append(out.Shapes, s)
	}
	sort.Strings(out.States)
	sort.Strings(out.Shapes)
	for _, f := range found {
		out.Found = append(out.Found, f)
	}
	sort.Slice(out.Found, func(i, j int) bool { return out.Found[i].Sig < out.Found[j].Sig })
	ob, _ := json.Marshal(out)
	if err := os.WriteFile(job.Out, ob, 0o644); err != nil {
		t.Fatal(err)
	}
}

func absorb(t *testing.T, job *Job, out *WorkerOut, found map[string]*Found, states, shapes map[string]bool, spec *PropSpec, plan *Plan, res *Result) {
	out.Runs++
	out.Steps += res.Steps
	out.SimS += res.SimTime.Seconds()
	out.StoreCalls += res.StoreCalls
	out.EntropyDraws += res.EntropyDraws
	for k, v := range res.Stats {
		out.Stats[k] += v
	}
	nontrivial := false
	for k, v := range res.Probes {
		out.Probes[k] += v
		if spec != nil {
			for _, c := range spec.Characteristic {
				if strings.HasPrefix(k, c) {
					nontrivial = true
				}
			}
		}
	}
	if spec != nil && len(spec.Characteristic) == 0 {
		nontrivial = true
	}
	if nontrivial {
		out.Nontrivial++
		shapes[shortHash(res.Shape)+shortHash(plan.K.Store+fmt.Sprint(plan.K.JWTAccess))] = true
		if len(out.Samples) < 3 {
			out.Samples = append(out.Samples, compactPlan(plan))
		}
	}
	for _, s := range res.States {
		states[s] = true
	}
	if res.Panic != "" {
		out.Panics = append(out.Panics, fmt.Sprintf("seed %d (%s): %s at %s", plan.Seed, plan.Note, res.Panic, res.PanicStack))
	}
	if len(res.Sanity) > 0 {
		out.SanityRuns++
		if len(out.Sanity) < 5 {
			out.Sanity = append(out.Sanity, fmt.Sprintf("seed %d profile %s: %s", plan.Seed, plan.Profile, res.Sanity[0]))
		}
	}
	for _, v := range res.Violations {
		if v.Prop != job.Property {
			out.Other[v.Sig()]++
			continue
		}
		f, ok := found[v.Sig()]
		if ok {
			f.Count++
			continue
		}
		f = &Found{Sig: v.Sig(), Prop: v.Prop, Detail: v.Detail, Seed: plan.Seed, Profile: plan.Profile, Count: 1, From: len(plan.Steps), Steps: len(plan.Steps)}
		found[v.Sig()] = f
		// determinism gate: one plan is one execution. A violation that does not re-execute with the same signature and the
		// same event log is not a replayable counterexample; it is reported as harness trouble (exit 2), never as a VIOLATION.
		if re := Execute(t, plan); !hasSig(re, v.Prop, v.Sig()) || re.LogHash != res.LogHash {
			delete(found, v.Sig())
			d := fmt.Sprintf("seed %d profile %s: %s did not re-execute identically (reproduced=%v, %s)", plan.Seed, plan.Profile, v.Sig(), hasSig(re, v.Prop, v.Sig()), firstLogDiff(res.Log, re.Log))
			out.Nondet = append(out.Nondet, d)
			if job.ReplayDir != "" {
				b, _ := json.MarshalIndent(map[string]interface{}{"what": d, "plan": plan, "log_first": res.Log, "log_second": re.Log}, "", " ")
				_ = os.MkdirAll(job.ReplayDir, 0o755)
				_ = os.WriteFile(filepath.Join(job.ReplayDir, fmt.Sprintf("nondeterminism-%s-%d.json", job.Property, plan.Seed)), b, 0o644)
			}
			continue
		}
		mp, mres := plan, res
		if job.Minimise {
			mp = minimise(t, plan, v.Prop, v.Sig(), 400)
			mres = Execute(t, mp)
			for _, mv := range mres.Violations {
				if mv.Sig() == v.Sig() {
					v = mv
				}
			}
			f.Steps = len(mp.Steps)
			f.Detail = v.Detail
		}
		if job.ReplayDir != "" {
			f.Replay = writeReplay(job.ReplayDir, job.Property, v, mp, mres, len(plan.Steps))
		}
	}
}

// TestReplay re-executes a replay file in a fresh process: it must fail with the same signature and the same event-log hash.
func RunReplay(t *testing.T) {
	path := os.Getenv("SIM_REPLAY")
	if path == "" {
		t.Skip("SIM_REPLAY not set")
	}
	b, err := os.ReadFile(path)
	if err != nil {
		t.Fatal(err)
	}
	var rf ReplayFile
	if err := json.Unmarshal(b, &rf); err != nil {
		t.Fatal(err)
	}
	var res *Result
	if rf.Plan.Profile == "enumerated" && ReplayEnumerated != nil {
		res = ReplayEnumerated(t, &rf)
	} else {
		res = Execute(t, rf.Plan)
	}
	for _, l := range res.Log {
		fmt.Println(l)
	}
	same := hasSig(res, rf.Property, rf.Sig)
	fmt.Printf("REPLAY signature=%s reproduced=%v log_hash=%s recorded_hash=%s same_log=%v\n", rf.Sig, same, res.LogHash, rf.LogHash, res.LogHash == rf.LogHash)
	if same {
		fmt.Printf("VIOLATION property=%s replay=%s\n", rf.Property, path)
		if os.Getenv("SIM_REPLAY_EXPECT") != "clean" {
			os.Exit(1)
		}
	}
}

var ReplayEnumerated func(t *testing.T, rf *ReplayFile) *Result
