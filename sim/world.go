package sim

import (
	"context"
	"crypto/ecdsa"
	"crypto/rsa"
	"crypto/sha256"
	"crypto/sha512"
	"crypto/x509"
	"encoding/json"
	"encoding/pem"
	"fmt"
	"hash"
	"net/http"
	"net/url"
	"os"
	"path/filepath"
	"runtime"
	"sync"
	"time"

	jose "github.com/go-jose/go-jose/v3"
	"github.com/mohae/deepcopy"
	"golang.org/x/crypto/bcrypt"

	"github.com/ory/fosite"
	"github.com/ory/fosite/compose"
	"github.com/ory/fosite/handler/oauth2"
	"github.com/ory/fosite/handler/openid"
	"github.com/ory/fosite/handler/rfc8628"
	"github.com/ory/fosite/storage"
	"github.com/ory/fosite/token/jwt"
)

// ---------------------------------------------------------------------------
// Fixture keys (committed PEMs; key generation is slow and not replayable)

var (
	keyOnce sync.Once
	keys    = map[string]interface{}{}
)

func fixtureDir() string {
	_, file, _, _ := runtime.Caller(0)
	return filepath.Join(filepath.Dir(file), "testdata")
}

func loadKeys() {
	keyOnce.Do(func() {
		dir := os.Getenv("SIM_TESTDATA")
		if dir == "" {
			dir = fixtureDir()
		}
		files, _ := filepath.Glob(filepath.Join(dir, "*.pem"))
		for _, f := range files {
			b, err := os.ReadFile(f)
			if err != nil {
				panic(err)
			}
			blk, _ := pem.Decode(b)
			name := filepath.Base(f)
			name = name[:len(name)-4]
			switch blk.Type {
			case "RSA PRIVATE KEY":
				k, err := x509.ParsePKCS1PrivateKey(blk.Bytes)
				if err != nil {
					panic(err)
				}
				keys[name] = k
			case "EC PRIVATE KEY":
				k, err := x509.ParseECPrivateKey(blk.Bytes)
				if err != nil {
					panic(err)
				}
				keys[name] = k
			}
		}
		if len(keys) < 10 {
			panic("fixture keys missing in " + dir)
		}
	})
}

func Key(name string) interface{} { loadKeys(); return keys[name] }

func PublicOf(k interface{}) interface{} {
	switch t := k.(type) {
	case *rsa.PrivateKey:
		return &t.PublicKey
	case *ecdsa.PrivateKey:
		return &t.PublicKey
	}
	return nil
}

// AlgFor returns the natural JWS alg for a fixture key name.
func AlgFor(name string) string {
	switch {
	case len(name) >= 3 && name[:3] == "rsa":
		return "RS256"
	case len(name) >= 7 && name[:7] == "ec_p256":
		return "ES256"
	case len(name) >= 7 && name[:7] == "ec_p384":
		return "ES384"
	case len(name) >= 7 && name[:7] == "ec_p521":
		return "ES512"
	}
	return "RS256"
}

// ---------------------------------------------------------------------------
// bcrypt cache: secrets hashed once per process at cost 4, before entropy is swapped.

var (
	hashMu    sync.Mutex
	hashCache = map[string][]byte{}
)

func HashSecret(s string) []byte {
	hashMu.Lock()
	defer hashMu.Unlock()
	if h, ok := hashCache[s]; ok {
		return h
	}
	h, err := bcrypt.GenerateFromPassword([]byte(s), 4)
	if err != nil {
		panic(err)
	}
	hashCache[s] = h
	return h
}

// ---------------------------------------------------------------------------
// Session used by the simulated application (what a fosite user writes).

type SimSession struct {
	Claims    *jwt.IDTokenClaims
	Headers   *jwt.Headers
	JWTClaims *jwt.JWTClaims
	JWTHeader *jwt.Headers
	ExpiresAt map[fosite.TokenType]time.Time
	Username  string
	Subject   string
	Extra     map[string]interface{}
}

func NewSimSession(subject string) *SimSession {
	return &SimSession{
		Claims:    &jwt.IDTokenClaims{Subject: subject, Extra: map[string]interface{}{}},
		Headers:   &jwt.Headers{Extra: map[string]interface{}{}},
		JWTClaims: &jwt.JWTClaims{Subject: subject, Extra: map[string]interface{}{}},
		JWTHeader: &jwt.Headers{Extra: map[string]interface{}{}},
		Subject:   subject,
		Username:  subject,
		Extra:     map[string]interface{}{},
	}
}

func (s *SimSession) SetExpiresAt(key fosite.TokenType, exp time.Time) {
	if s.ExpiresAt == nil {
		s.ExpiresAt = map[fosite.TokenType]time.Time{}
	}
	s.ExpiresAt[key] = exp
}
func (s *SimSession) GetExpiresAt(key fosite.TokenType) time.Time {
	if s.ExpiresAt == nil {
		return time.Time{}
	}
	return s.ExpiresAt[key]
}
func (s *SimSession) GetUsername() string {
	if s == nil {
		return ""
	}
	return s.Username
}
func (s *SimSession) GetSubject() string {
	if s == nil {
		return ""
	}
	return s.Subject
}
func (s *SimSession) SetSubject(sub string) {
	s.Subject = sub
	if s.JWTClaims != nil {
		s.JWTClaims.Subject = sub
	}
	if s.Claims != nil {
		s.Claims.Subject = sub
	}
}
func (s *SimSession) Clone() fosite.Session {
	if s == nil {
		return nil
	}
	return deepcopy.Copy(s).(fosite.Session)
}
func (s *SimSession) IDTokenClaims() *jwt.IDTokenClaims {
	if s.Claims == nil {
		s.Claims = &jwt.IDTokenClaims{}
	}
	return s.Claims
}
func (s *SimSession) IDTokenHeaders() *jwt.Headers {
	if s.Headers == nil {
		s.Headers = &jwt.Headers{}
	}
	return s.Headers
}
func (s *SimSession) GetJWTClaims() jwt.JWTClaimsContainer {
	if s.JWTClaims == nil {
		s.JWTClaims = &jwt.JWTClaims{}
	}
	return s.JWTClaims
}
func (s *SimSession) GetJWTHeader() *jwt.Headers {
	if s.JWTHeader == nil {
		s.JWTHeader = &jwt.Headers{}
	}
	return s.JWTHeader
}
func (s *SimSession) GetExtraClaims() map[string]interface{} {
	if s == nil {
		return nil
	}
	if s.Extra == nil {
		s.Extra = map[string]interface{}{}
	}
	return s.Extra
}

var _ openid.Session = (*SimSession)(nil)
var _ oauth2.JWTSessionContainer = (*SimSession)(nil)

// ---------------------------------------------------------------------------
// Clients (registration records of the simulated deployment)

type ClientSpec struct {
	ID            string           `json:"id"`
	Public        bool             `json:"public,omitempty"`
	Secret        string           `json:"secret,omitempty"`
	Rotated       []string         `json:"rotated,omitempty"`
	RedirectURIs  []string         `json:"redirect_uris,omitempty"`
	GrantTypes    []string         `json:"grant_types,omitempty"`
	ResponseTypes []string         `json:"response_types,omitempty"`
	Scopes        []string         `json:"scopes,omitempty"`
	Audience      []string         `json:"audience,omitempty"`
	ResponseModes []string         `json:"response_modes,omitempty"`
	OIDC          bool             `json:"oidc,omitempty"`
	AuthMethod    string           `json:"auth_method,omitempty"`
	AuthAlg       string           `json:"auth_alg,omitempty"`
	KeyName       string           `json:"key,omitempty"` // fixture key registered as JWKS
	JWKSURI       string           `json:"jwks_uri,omitempty"`
	RequestObjAlg string           `json:"request_object_alg,omitempty"`
	RequestURIs   []string         `json:"request_uris,omitempty"`
	Lifespans     map[string]int64 `json:"lifespans,omitempty"` // "grant:tokentype" -> seconds
}

type SimClient struct {
	*fosite.DefaultClient
	Lifespans     *fosite.ClientLifespanConfig
	ResponseModes []fosite.ResponseModeType
}

func (c *SimClient) GetResponseModes() []fosite.ResponseModeType { return c.ResponseModes }
func (c *SimClient) GetEffectiveLifespan(gt fosite.GrantType, tt fosite.TokenType, fallback time.Duration) time.Duration {
	// the per-client override table under test is fosite's own implementation
	d := &fosite.DefaultClientWithCustomTokenLifespans{DefaultClient: c.DefaultClient, TokenLifespans: c.Lifespans}
	return d.GetEffectiveLifespan(gt, tt, fallback)
}

type SimOIDCClient struct {
	*SimClient
	JSONWebKeysURI                    string
	JSONWebKeys                       *jose.JSONWebKeySet
	TokenEndpointAuthMethod           string
	RequestURIs                       []string
	RequestObjectSigningAlgorithm     string
	TokenEndpointAuthSigningAlgorithm string
}

func (c *SimOIDCClient) GetJSONWebKeysURI() string           { return c.JSONWebKeysURI }
func (c *SimOIDCClient) GetJSONWebKeys() *jose.JSONWebKeySet { return c.JSONWebKeys }
func (c *SimOIDCClient) GetRequestURIs() []string            { return c.RequestURIs }
func (c *SimOIDCClient) GetRequestObjectSigningAlgorithm() string {
	return c.RequestObjectSigningAlgorithm
}
func (c *SimOIDCClient) GetTokenEndpointAuthMethod() string { return c.TokenEndpointAuthMethod }
func (c *SimOIDCClient) GetTokenEndpointAuthSigningAlgorithm() string {
	if c.TokenEndpointAuthSigningAlgorithm == "" {
		return "RS256"
	}
	return c.TokenEndpointAuthSigningAlgorithm
}

func durp(sec int64) *time.Duration { d := time.Duration(sec) * time.Second; return &d }

func lifespanConfig(m map[string]int64) *fosite.ClientLifespanConfig {
	if len(m) == 0 {
		return nil
	}
	c := &fosite.ClientLifespanConfig{}
	for k, v := range m {
		switch k {
		case "authorization_code:access_token":
			c.AuthorizationCodeGrantAccessTokenLifespan = durp(v)
		case "authorization_code:id_token":
			c.AuthorizationCodeGrantIDTokenLifespan = durp(v)
		case "authorization_code:refresh_token":
			c.AuthorizationCodeGrantRefreshTokenLifespan = durp(v)
		case "client_credentials:access_token":
			c.ClientCredentialsGrantAccessTokenLifespan = durp(v)
		case "implicit:access_token":
			c.ImplicitGrantAccessTokenLifespan = durp(v)
		case "implicit:id_token":
			c.ImplicitGrantIDTokenLifespan = durp(v)
		case "jwt_bearer:access_token":
			c.JwtBearerGrantAccessTokenLifespan = durp(v)
		case "password:access_token":
			c.PasswordGrantAccessTokenLifespan = durp(v)
		case "password:refresh_token":
			c.PasswordGrantRefreshTokenLifespan = durp(v)
		case "refresh_token:id_token":
			c.RefreshTokenGrantIDTokenLifespan = durp(v)
		case "refresh_token:access_token":
			c.RefreshTokenGrantAccessTokenLifespan = durp(v)
		case "refresh_token:refresh_token":
			c.RefreshTokenGrantRefreshTokenLifespan = durp(v)
		}
	}
	return c
}

func JWKSFor(keyName string) *jose.JSONWebKeySet {
	if keyName == "" {
		return nil
	}
	return &jose.JSONWebKeySet{Keys: []jose.JSONWebKey{{
		Key: PublicOf(Key(keyName)), KeyID: "kid-" + keyName, Use: "sig", Algorithm: AlgFor(keyName),
	}}}
}

func BuildClient(cs ClientSpec) fosite.Client {
	dc := &fosite.DefaultClient{
		ID: cs.ID, Public: cs.Public,
		RedirectURIs: append([]string{}, cs.RedirectURIs...), GrantTypes: append([]string{}, cs.GrantTypes...),
		ResponseTypes: append([]string{}, cs.ResponseTypes...), Scopes: append([]string{}, cs.Scopes...),
		Audience: append([]string{}, cs.Audience...),
	}
	if cs.Secret != "" {
		dc.Secret = HashSecret(cs.Secret)
	}
	for _, r := range cs.Rotated {
		dc.RotatedSecrets = append(dc.RotatedSecrets, HashSecret(r))
	}
	sc := &SimClient{DefaultClient: dc, Lifespans: lifespanConfig(cs.Lifespans)}
	for _, m := range cs.ResponseModes {
		sc.ResponseModes = append(sc.ResponseModes, fosite.ResponseModeType(m))
	}
	if !cs.OIDC {
		return sc
	}
	oc := &SimOIDCClient{SimClient: sc, TokenEndpointAuthMethod: cs.AuthMethod, TokenEndpointAuthSigningAlgorithm: cs.AuthAlg,
		RequestObjectSigningAlgorithm: cs.RequestObjAlg, RequestURIs: cs.RequestURIs, JSONWebKeysURI: cs.JWKSURI}
	if cs.JWKSURI == "" {
		oc.JSONWebKeys = JWKSFor(cs.KeyName)
	}
	return oc
}

// ---------------------------------------------------------------------------
// Knobs: the configuration of one simulated deployment.

type Knobs struct {
	JWTAccess               bool              `json:"jwt_access,omitempty"`
	Store                   string            `json:"store,omitempty"`   // plain | tx | contract
	ATLife                  int64             `json:"at_life,omitempty"` // seconds; 0 = leave unset (documented default)
	RTLife                  int64             `json:"rt_life,omitempty"` // -1 unlimited
	CodeLife                int64             `json:"code_life,omitempty"`
	IDLife                  int64             `json:"id_life,omitempty"`
	DeviceLife              int64             `json:"device_life,omitempty"`
	PARLife                 int64             `json:"par_life,omitempty"`
	RefreshScopes           []string          `json:"refresh_scopes"` // nil => default ("offline","offline_access"); [] => none required
	RefreshScopesSet        bool              `json:"refresh_scopes_set,omitempty"`
	ScopeStrategy           string            `json:"scope_strategy,omitempty"` // "" default(wildcard) | exact | hierarchic | wildcard
	AudStrategy             string            `json:"aud_strategy,omitempty"`   // "" default | exact
	EnforcePKCE             bool              `json:"enforce_pkce,omitempty"`
	EnforcePKCEPublic       bool              `json:"enforce_pkce_public,omitempty"`
	PKCEPlain               bool              `json:"pkce_plain,omitempty"`
	PAREnforced             bool              `json:"par_enforced,omitempty"`
	PARPrefix               string            `json:"par_prefix,omitempty"`
	Entropy                 int               `json:"entropy,omitempty"`
	LegacyErrors            bool              `json:"legacy_errors,omitempty"`
	Debug                   bool              `json:"debug,omitempty"`
	MinParamEntropy         int               `json:"min_param_entropy,omitempty"`
	DisableRTValidation     bool              `json:"disable_rt_validation,omitempty"`
	Secret                  string            `json:"secret,omitempty"` // current global secret (>=32)
	RotatedSecrets          []string          `json:"rotated_secrets,omitempty"`
	HMACHash                string            `json:"hmac_hash,omitempty"` // "" | sha256 | sha512
	IDKey                   string            `json:"id_key,omitempty"`    // fixture key signing id tokens / jwt access tokens
	JWTBearerIDOptional     bool              `json:"jb_id_optional,omitempty"`
	JWTBearerIATOptional    bool              `json:"jb_iat_optional,omitempty"`
	LegacyRevocationHandler bool              `json:"legacy_revocation_handler,omitempty"` // an extra revocation handler over an empty store is registered first
	JWTScopeField           int               `json:"jwt_scope_field,omitempty"`           // Config.JWTScopeClaimKey: 0 unset (= list "scp"), 1 list, 2 string "scope", 3 both
	LibSession              bool              `json:"lib_session,omitempty"`               // the application uses the library's openid.DefaultSession (only with opaque access tokens)
	CustomResponseMode      bool              `json:"custom_response_mode,omitempty"`      // Config.ResponseModeHandlerExtension announces the extra mode "sim_post" (a decorated form post)
	DenyClient              string            `json:"deny_client,omitempty"`               // Config.ClientAuthenticationStrategy: the default strategy plus an operator deny-list holding this client id
	JWTBearerSkipClientAuth bool              `json:"jb_skip_client_auth,omitempty"`
	JWTBearerMaxDur         int64             `json:"jb_max_dur,omitempty"`
	OmitScopeParam          bool              `json:"omit_scope_param,omitempty"`
	AllowInsecureRedirect   bool              `json:"allow_insecure_redirect,omitempty"`
	PollInterval            int64             `json:"poll_interval,omitempty"`
	UserCodeLen             int               `json:"user_code_len,omitempty"`
	Clients                 []ClientSpec      `json:"clients"`
	Users                   map[string]string `json:"users,omitempty"`
	// JWT bearer issuers: issuer -> subject -> key fixture name -> scopes
	BearerKeys []BearerKeySpec `json:"bearer_keys,omitempty"`
}

type BearerKeySpec struct {
	Issuer  string   `json:"iss"`
	Subject string   `json:"sub"`
	KeyName string   `json:"key"`
	KID     string   `json:"kid"`
	Scopes  []string `json:"scopes"`
}

const (
	TokenURL      = "https://as.sim/token"
	IssuerURL     = "https://as.sim"
	VerifyURL     = "https://as.sim/device"
	DefaultSecret = "sim-global-secret-0000000000000000000000"
	UnsetSecret   = "-" // Knobs.Secret value meaning "no global secret configured" ("" means: the default one)
)

// Documented defaults (config_default.go doc comments / RFCs), used by the ledger when a knob is unset.
func (k *Knobs) DocATLife() time.Duration {
	if k.ATLife == 0 {
		return time.Hour
	}
	return time.Duration(k.ATLife) * time.Second
}
func (k *Knobs) DocRTLife() time.Duration {
	if k.RTLife == 0 {
		return 30 * 24 * time.Hour
	}
	if k.RTLife < 0 {
		return -1
	}
	return time.Duration(k.RTLife) * time.Second
}
func (k *Knobs) DocCodeLife() time.Duration {
	if k.CodeLife == 0 {
		return 15 * time.Minute
	}
	return time.Duration(k.CodeLife) * time.Second
}
func (k *Knobs) DocIDLife() time.Duration {
	if k.IDLife == 0 {
		return time.Hour
	}
	return time.Duration(k.IDLife) * time.Second
}
func (k *Knobs) DocDeviceLife() time.Duration {
	if k.DeviceLife == 0 {
		return 10 * time.Minute
	}
	return time.Duration(k.DeviceLife) * time.Second
}
func (k *Knobs) DocPARLife() time.Duration {
	if k.PARLife == 0 {
		return 5 * time.Minute
	}
	return time.Duration(k.PARLife) * time.Second
}
func (k *Knobs) DocPARPrefix() string {
	if k.PARPrefix == "" {
		return "urn:ietf:params:oauth:request_uri:"
	}
	return k.PARPrefix
}
func (k *Knobs) DocRefreshScopes() []string {
	if !k.RefreshScopesSet {
		return []string{"offline", "offline_access"}
	}
	return k.RefreshScopes
}

// World is one simulated deployment: provider, store, clients.
type World struct {
	K        *Knobs
	Cfg      *fosite.Config
	Mem      *storage.MemoryStore
	Store    *Proxy
	Provider fosite.OAuth2Provider
	Strategy *compose.CommonStrategy
	HMAC     *oauth2.HMACSHAStrategy
	Device   *rfc8628.DefaultDeviceStrategy
	Net      *SimNet
	Specs    map[string]*ClientSpec
}

func hmacHasher(name string) func() hash.Hash {
	switch name {
	case "sha256":
		return sha256.New
	case "sha512":
		return sha512.New
	}
	return nil
}

func (k *Knobs) BuildConfig(net *SimNet) *fosite.Config {
	sec := k.Secret
	if sec == "" {
		sec = DefaultSecret
	}
	if sec == UnsetSecret {
		sec = "" // the operator left the global secret unset (only rotated secrets, if any, remain)
	}
	cfg := &fosite.Config{
		GlobalSecret:                         []byte(sec),
		TokenURL:                             TokenURL,
		IDTokenIssuer:                        IssuerURL,
		AccessTokenIssuer:                    IssuerURL,
		DeviceVerificationURL:                VerifyURL,
		EnforcePKCE:                          k.EnforcePKCE,
		EnforcePKCEForPublicClients:          k.EnforcePKCEPublic,
		EnablePKCEPlainChallengeMethod:       k.PKCEPlain,
		IsPushedAuthorizeEnforced:            k.PAREnforced,
		PushedAuthorizeRequestURIPrefix:      k.PARPrefix,
		TokenEntropy:                         k.Entropy,
		UseLegacyErrorFormat:                 k.LegacyErrors,
		SendDebugMessagesToClients:           k.Debug,
		MinParameterEntropy:                  k.MinParamEntropy,
		DisableRefreshTokenValidation:        k.DisableRTValidation,
		HMACHasher:                           hmacHasher(k.HMACHash),
		GrantTypeJWTBearerIDOptional:         k.JWTBearerIDOptional,
		GrantTypeJWTBearerIssuedDateOptional: k.JWTBearerIATOptional,
		GrantTypeJWTBearerCanSkipClientAuth:  k.JWTBearerSkipClientAuth,
		OmitRedirectScopeParam:               k.OmitScopeParam,
		JWTScopeClaimKey:                     jwt.JWTScopeFieldEnum(k.JWTScopeField),
		UserCodeLength:                       k.UserCodeLen,
		DeviceAuthTokenPollingInterval:       time.Duration(k.PollInterval) * time.Second,
		// explicit so that the lazily-defaulting getters never write during a run
		ClientSecretsHasher: nil,
	}
	for _, r := range k.RotatedSecrets {
		cfg.RotatedGlobalSecrets = append(cfg.RotatedGlobalSecrets, []byte(r))
	}
	if k.ATLife != 0 {
		cfg.AccessTokenLifespan = time.Duration(k.ATLife) * time.Second
	}
	if k.RTLife != 0 {
		if k.RTLife < 0 {
			cfg.RefreshTokenLifespan = -1
		} else {
			cfg.RefreshTokenLifespan = time.Duration(k.RTLife) * time.Second
		}
	}
	if k.CodeLife != 0 {
		cfg.AuthorizeCodeLifespan = time.Duration(k.CodeLife) * time.Second
	}
	if k.IDLife != 0 {
		cfg.IDTokenLifespan = time.Duration(k.IDLife) * time.Second
	}
	if k.DeviceLife != 0 {
		cfg.DeviceAndUserCodeLifespan = time.Duration(k.DeviceLife) * time.Second
	}
	if k.PARLife != 0 {
		cfg.PushedAuthorizeContextLifespan = time.Duration(k.PARLife) * time.Second
	}
	if k.JWTBearerMaxDur != 0 {
		cfg.GrantTypeJWTBearerMaxDuration = time.Duration(k.JWTBearerMaxDur) * time.Second
	}
	if k.RefreshScopesSet {
		cfg.RefreshTokenScopes = append([]string{}, k.RefreshScopes...)
	}
	switch k.ScopeStrategy {
	case "exact":
		cfg.ScopeStrategy = fosite.ExactScopeStrategy
	case "hierarchic":
		cfg.ScopeStrategy = fosite.HierarchicScopeStrategy
	case "wildcard":
		cfg.ScopeStrategy = fosite.WildcardScopeStrategy
	}
	switch k.AudStrategy {
	case "exact":
		cfg.AudienceMatchingStrategy = fosite.ExactAudienceMatchingStrategy
	case "default":
		cfg.AudienceMatchingStrategy = fosite.DefaultAudienceMatchingStrategy
	}
	if k.AllowInsecureRedirect {
		cfg.RedirectSecureChecker = func(context.Context, *url.URL) bool { return true }
	}
	cfg.ClientSecretsHasher = &fosite.BCrypt{Config: cfg}
	if net != nil {
		cfg.JWKSFetcherStrategy = net
		cfg.HTTPClient = net.RetryableClient()
	}
	return cfg
}

func NewWorld(k *Knobs) *World {
	loadKeys()
	w := &World{K: k, Specs: map[string]*ClientSpec{}}
	w.Net = NewSimNet()
	w.Cfg = k.BuildConfig(w.Net)
	w.Mem = storage.NewMemoryStore()
	for i := range k.Clients {
		cs := &k.Clients[i]
		w.Specs[cs.ID] = cs
		w.Mem.Clients[cs.ID] = BuildClient(*cs)
		if cs.JWKSURI != "" {
			w.Net.JWKS[cs.JWKSURI] = JWKSFor(cs.KeyName)
		}
	}
	for u, p := range k.Users {
		w.Mem.Users[u] = storage.MemoryUserRelation{Username: u, Password: p}
	}
	for _, b := range k.BearerKeys {
		ipk, ok := w.Mem.IssuerPublicKeys[b.Issuer]
		if !ok {
			ipk = storage.IssuerPublicKeys{Issuer: b.Issuer, KeysBySub: map[string]storage.SubjectPublicKeys{}}
		}
		spk, ok := ipk.KeysBySub[b.Subject]
		if !ok {
			spk = storage.SubjectPublicKeys{Subject: b.Subject, Keys: map[string]storage.PublicKeyScopes{}}
		}
		spk.Keys[b.KID] = storage.PublicKeyScopes{Key: &jose.JSONWebKey{Key: PublicOf(Key(b.KeyName)), KeyID: b.KID, Use: "sig", Algorithm: AlgFor(b.KeyName)}, Scopes: b.Scopes}
		ipk.KeysBySub[b.Subject] = spk
		w.Mem.IssuerPublicKeys[b.Issuer] = ipk
	}
	w.Store = NewProxy(w.Mem, k.Store)
	w.Compose()
	return w
}

// Compose (re)creates the provider over the surviving store: used at start and after RESTART.
func (w *World) Compose() {
	cfg := w.Cfg
	// a restarted process builds fresh handler lists
	cfg.AuthorizeEndpointHandlers = nil
	cfg.TokenEndpointHandlers = nil
	cfg.TokenIntrospectionHandlers = nil
	cfg.RevocationHandlers = nil
	cfg.PushedAuthorizeEndpointHandlers = nil
	cfg.DeviceEndpointHandlers = nil
	idKey := w.K.IDKey
	if idKey == "" {
		idKey = "rsa0"
	}
	var priv interface{} = Key(idKey)
	if alg := AlgFor(idKey); alg == "ES384" || alg == "ES512" {
		// fosite's signer only derives ES256 from a bare ECDSA key; other curves are configured as a JWK with its algorithm
		priv = &jose.JSONWebKey{Key: Key(idKey), Algorithm: alg, KeyID: "srv-" + idKey, Use: "sig"}
	}
	keyGetter := func(context.Context) (interface{}, error) { return priv, nil }
	w.HMAC = compose.NewOAuth2HMACStrategy(cfg)
	var core oauth2.CoreStrategy = w.HMAC
	if w.K.JWTAccess {
		core = compose.NewOAuth2JWTStrategy(keyGetter, w.HMAC, cfg)
	}
	w.Device = compose.NewDeviceStrategy(cfg)
	w.Strategy = &compose.CommonStrategy{
		CoreStrategy:               core,
		RFC8628CodeStrategy:        w.Device,
		OpenIDConnectTokenStrategy: compose.NewOpenIDConnectStrategy(keyGetter, cfg),
		Signer:                     &jwt.DefaultSigner{GetPrivateKey: keyGetter},
	}
	var st interface{} = w.Store
	if w.K.Store == "tx" {
		st = &TxProxy{Proxy: w.Store}
	}
	w.Provider = compose.Compose(cfg, st, w.Strategy,
		compose.OAuth2AuthorizeExplicitFactory,
		compose.OAuth2AuthorizeImplicitFactory,
		compose.OAuth2ClientCredentialsGrantFactory,
		compose.OAuth2RefreshTokenGrantFactory,
		compose.OAuth2ResourceOwnerPasswordCredentialsFactory,
		compose.RFC7523AssertionGrantFactory,
		compose.RFC8628DeviceFactory,
		compose.RFC8628DeviceAuthorizationTokenFactory,
		compose.OpenIDConnectExplicitFactory,
		compose.OpenIDConnectImplicitFactory,
		compose.OpenIDConnectHybridFactory,
		compose.OpenIDConnectRefreshFactory,
		compose.OpenIDConnectDeviceFactory,
		compose.OAuth2TokenIntrospectionFactory,
		compose.OAuth2TokenRevocationFactory,
		compose.OAuth2PKCEFactory,
		compose.PushedAuthorizeHandlerFactory,
	)
	cfg.ResponseModeHandlerExtension = nil
	if w.K.CustomResponseMode {
		cfg.ResponseModeHandlerExtension = &simModeHandler{cfg: cfg}
	}
	cfg.ClientAuthenticationStrategy = nil
	if w.K.DenyClient != "" {
		// an operator-supplied strategy (as for mTLS or deny-lists): the built-in checks, then the deny-list. Every endpoint that
		// authenticates clients has to go through it.
		prov, deny := w.Provider.(*fosite.Fosite), w.K.DenyClient
		cfg.ClientAuthenticationStrategy = func(ctx context.Context, r *http.Request, form url.Values) (fosite.Client, error) {
			c, err := prov.DefaultClientAuthenticationStrategy(ctx, r, form)
			if err != nil {
				return nil, err
			}
			if c.GetID() == deny {
				return nil, fosite.ErrInvalidClient.WithHint("The client is on the operator's deny-list.")
			}
			return c, nil
		}
	}
	if w.K.LegacyRevocationHandler {
		// a migration composition: a second revocation handler over another (empty) token store is asked first. It knows none of
		// the presented tokens and, as RFC 7009 wants, answers "nothing to do" - the handler that owns the token must still be asked.
		legacy := &oauth2.TokenRevocationHandler{TokenRevocationStorage: storage.NewMemoryStore(), RefreshTokenStrategy: w.HMAC, AccessTokenStrategy: w.HMAC}
		cfg.RevocationHandlers = append(fosite.RevocationHandlers{legacy}, cfg.RevocationHandlers...)
		// ... and a second introspection handler, asked after the real one, that owns none of the tokens and declines
		cfg.TokenIntrospectionHandlers = append(cfg.TokenIntrospectionHandlers, decliningIntrospector{})
	}
}

func (w *World) Spec(id string) *ClientSpec { return w.Specs[id] }

func (w *World) String() string { return fmt.Sprintf("world(%d clients)", len(w.Specs)) }

// simModeHandler: a custom response mode as an application would register it through Config.ResponseModeHandlerExtension -
// "sim_post" delivers the parameters exactly like form_post (the repository's own example decorates the form post too). The
// library keeps its duties: it validates the mode against the client's registration and marks the response as not cacheable.
const SimResponseMode = "sim_post"

type simModeHandler struct{ cfg *fosite.Config }

func (h *simModeHandler) ResponseModes() fosite.ResponseModeTypes {
	return fosite.ResponseModeTypes{fosite.ResponseModeType(SimResponseMode)}
}

func (h *simModeHandler) WriteAuthorizeResponse(ctx context.Context, rw http.ResponseWriter, ar fosite.AuthorizeRequester, resp fosite.AuthorizeResponder) {
	rw.Header().Set("Content-Type", "text/html;charset=UTF-8")
	fosite.WriteAuthorizeFormPostResponse(ar.GetRedirectURI().String(), resp.GetParameters(), fosite.DefaultFormPostTemplate, rw)
}

func (h *simModeHandler) WriteAuthorizeError(ctx context.Context, rw http.ResponseWriter, ar fosite.AuthorizeRequester, err error) {
	rfcerr := fosite.ErrorToRFC6749Error(err).WithLegacyFormat(h.cfg.UseLegacyErrorFormat).WithExposeDebug(h.cfg.SendDebugMessagesToClients)
	if !ar.IsRedirectURIValid() {
		rw.Header().Set("Content-Type", "application/json;charset=UTF-8")
		js, _ := json.Marshal(rfcerr)
		rw.WriteHeader(rfcerr.CodeField)
		_, _ = rw.Write(js)
		return
	}
	u := *ar.GetRedirectURI()
	u.Fragment = ""
	vals := rfcerr.ToValues()
	vals.Set("state", ar.GetState())
	rw.Header().Set("Content-Type", "text/html;charset=UTF-8")
	fosite.WriteAuthorizeFormPostResponse(u.String(), vals, fosite.DefaultFormPostTemplate, rw)
}

// decliningIntrospector: an additional TokenIntrospector (e.g. for another token format) that does not know the presented token.
type decliningIntrospector struct{}

func (decliningIntrospector) IntrospectToken(ctx context.Context, token string, tokenUse fosite.TokenUse, accessRequest fosite.AccessRequester, scopes []string) (fosite.TokenUse, error) {
	return "", fosite.ErrUnknownRequest
}
