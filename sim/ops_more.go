package sim

import (
	"fmt"
	"net/url"
	"strings"
	"time"

	"github.com/ory/fosite"
)

func init() {
	extraOps["device_authz"] = (*Run).opDeviceAuthz
	extraOps["device_decide"] = (*Run).opDeviceDecide
	extraOps["device_token"] = (*Run).opDeviceToken
	extraOps["par_push"] = (*Run).opPARPush
	extraOps["authz_par"] = (*Run).opAuthorizePAR
	extraOps["jwt_bearer"] = (*Run).opJWTBearer
	extraOps["client_change"] = (*Run).opClientChange
	extraOps["rotate_global"] = (*Run).opRotateGlobal
	extraOps["restart"] = (*Run).opRestart
}

// AttackerVerifier: the verifier behind the code_challenge an attacker adds to an authorization request that uses a request_uri.
const AttackerVerifier = "attacker-verifier-0123456789abcdefghijklmnopqrstuvw"

const grantDevice = "urn:ietf:params:oauth:grant-type:device_code"
const grantJWTBearer = "urn:ietf:params:oauth:grant-type:jwt-bearer"

// ---------------------------------------------------------------------------
// DEVICE GRANT

func (r *Run) opDeviceAuthz(st Step) {
	cs := r.clientSpec(st.C)
	form := url.Values{}
	if s := st.p("scope"); s != "" {
		form.Set("scope", s)
	}
	if a := st.p("aud"); a != "" {
		form.Set("audience", a)
	}
	basic := r.applyAuth(cs, st.A, form)
	if st.A != "unknown_client" && st.A != "none" && st.A != "as_other_query" && st.p("no_client_id") == "" {
		form.Set("client_id", cs.ID)
	}
	res := r.call("device", func() *Resp { return r.A.DeviceAuth(form, basic) })
	desc := fmt.Sprintf("device_authz %s auth=%s scope=%q", cs.ID, orOK(st.A), st.p("scope"))
	dc, uc := res.Str("device_code"), res.Str("user_code")
	r.Shape = append(r.Shape, "device_authz")
	if res.Crashed {
		r.logf("%s -> CRASHED", desc)
		return
	}
	if dc == "" {
		r.logf("%s -> %d %s", desc, res.Status, res.ErrName)
		if !r.authOK(cs, st.A) {
			r.probe("bad-client-auth:device_authorization")
			r.noWrites("device_authorization", desc)
		}
		if !r.authOK(cs, st.A) && !r.anyFault() && res.ErrName != "invalid_client" && res.ErrName != "invalid_request" {
			r.violate("C10", "wrong-error-class", "device_authorization", "%s: expected invalid_client/invalid_request, got %s", desc, res.ErrName)
		}
		return
	}
	if !r.authOK(cs, st.A) {
		r.violate("C10", "processed-without-client-auth", "device_authorization", "%s: a device authorization was started although client authentication was invalid", desc)
	}
	if r.Fault.mustRefuse() {
		r.violate("C18", "success-despite-storage-failure", "device_authorization", "%s: a storage call failed (%s) but device/user codes were returned", desc, r.Fault.desc())
	}
	now := r.now()
	g := r.L.NewGrant(&Grant{Client: cs.ID, Origin: "device", Scopes: nil, Audience: splitNonEmpty(st.p("aud")), ReqAt: now,
		Params: map[string]string{"decision": "", "requested_scope": st.p("scope"), "requested_aud": st.p("aud")}})
	for _, c := range r.L.Creds {
		if (c.Kind == "dc" && (c.Val == dc || c.Val == uc)) || (c.Kind == "uc" && (c.Val == uc || c.Val == dc)) {
			r.violate("C16", "device-or-user-code-repeated", c.Kind, "a device/user code was handed out twice")
		}
	}
	if dc == uc {
		r.violate("C16", "device-or-user-code-repeated", "same", "device code equals user code")
	}
	cd := r.L.AddCred(&Cred{Kind: "dc", Val: dc, G: g, Issued: now, Life: r.W.K.DocDeviceLife(), Endpoint: "device", Delivered: true})
	cu := r.L.AddCred(&Cred{Kind: "uc", Val: uc, G: g, Issued: now, Life: r.W.K.DocDeviceLife(), Endpoint: "device", Delivered: true})
	if e, ok := res.JSON["expires_in"].(float64); ok {
		cd.ExpiresIn = time.Duration(e) * time.Second
		if d := cd.ExpiresIn - cd.Life; d > Tol || d < -Tol {
			r.violate("C07", "expires-in-inconsistent", "device_code", "device authorization advertises expires_in=%s, the configured/documented lifetime is %s", cd.ExpiresIn, cd.Life)
		}
	}
	r.secret(dc, "device_code")
	r.secret(uc, "user_code")
	r.checkMinted(dc, "dc")
	r.logf("%s -> grant %d %s", desc, g.N, credNames(cd, cu))
	// confinement of the request (C12)
	gg := *g
	gg.Scopes = splitNonEmpty(st.p("scope"))
	r.checkConfinement("device", cs, &gg, desc)
}

func (r *Run) opDeviceDecide(st Step) {
	uc := r.L.Select(st.G, "uc")
	if st.p("latest") != "" {
		uc = r.L.SelectFromEnd(0, "uc")
	}
	if uc == nil {
		r.logf("device_decide: no user code yet")
		return
	}
	g := uc.G
	accept := st.V != "reject"
	sub := st.p("sub")
	if sub == "" {
		sub = "user-D"
	}
	var grant []string
	if gs := st.p("grant"); gs != "" {
		grant = splitNonEmpty(gs)
	}
	// the resource owner may consent to a part of what the device asked for: the first n requested scopes / audiences
	reqScopes, reqAud := splitNonEmpty(g.Params["requested_scope"]), splitNonEmpty(g.Params["requested_aud"])
	if n := st.p("grant_first"); n != "" && len(reqScopes) > 1 {
		var k int
		fmt.Sscanf(n, "%d", &k)
		grant = reqScopes[:1+k%(len(reqScopes)-1)]
	}
	var grantAud []string
	if n := st.p("aud_first"); n != "" && len(reqAud) > 0 {
		var k int
		fmt.Sscanf(n, "%d", &k)
		grantAud = append([]string{}, reqAud[:k%len(reqAud)]...)
		if grantAud == nil {
			grantAud = []string{}
		}
	}
	val := uc.Val
	if st.p("mutate") != "" {
		val = val + "X"
	}
	r.Fault.suspend++
	r.A.FreshSessionOnApproval = st.p("fresh_session") != ""
	why := r.A.DeviceVerify(val, accept, sub, grant, grantAud)
	r.A.FreshSessionOnApproval = false
	r.Fault.suspend--
	exp, _ := r.L.Expect(uc, r.now())
	r.logf("device_decide %s %s sub=%s -> %q", uc.Name(), map[bool]string{true: "accept", false: "reject"}[accept], sub, why)
	r.Shape = append(r.Shape, "decide")
	if val != uc.Val {
		if why == "" {
			r.violate("C06", "tampered-accepted", "uc", "a mutated user code was accepted by the verification page's lookup")
		}
		return
	}
	if why == "" {
		if exp == MustNot {
			r.violate("C07", "honoured-but-must-not", "uc", "%s was accepted by the verification step %s after it was issued (lifetime %s)", uc.Name(), r.now().Sub(uc.Issued), uc.Life)
			r.violate("C16", "expired-user-code-accepted", "", "%s was accepted after its expiry", uc.Name())
		}
		if accept {
			g.Params["decision"] = "accepted"
			g.Subject = sub
			for _, s := range splitNonEmpty(g.Params["requested_scope"]) {
				if grant == nil || has(grant, s) {
					g.Scopes = append(g.Scopes, s)
				}
			}
			g.OpenID = has(g.Scopes, "openid")
			g.AuthTime = r.now()
			g.Audience = nil
			for _, a := range reqAud {
				if grantAud == nil || has(grantAud, a) {
					g.Audience = append(g.Audience, a)
				}
			}
			if grant != nil && len(grant) < len(reqScopes) {
				r.probe("device-partial-scope-consent")
			}
			if grantAud != nil && len(grantAud) < len(reqAud) {
				r.probe("device-partial-audience-consent")
			}
		} else {
			g.Params["decision"] = "rejected"
		}
		r.L.Kill(uc, Spent, "C16")
	} else if why == "expired_code" && exp == Must {
		r.violate("C09", "refused-but-must", "uc", "%s refused as expired %s after issue, lifetime %s", uc.Name(), r.now().Sub(uc.Issued), uc.Life)
	}
}

func (r *Run) opDeviceToken(st Step) {
	dc := r.L.Select(st.G, "dc")
	if st.p("latest") != "" {
		dc = r.L.SelectFromEnd(0, "dc")
	}
	if dc == nil {
		r.logf("device_token: no device code yet")
		return
	}
	g := dc.G
	cs := r.presenter(st, g.Client)
	form := url.Values{"grant_type": {grantDevice}}
	val := dc.Val
	if m := st.p("mutate"); m != "" {
		val = mutateToken(val, m, r)
	}
	form.Set("device_code", val)
	basic := r.applyAuth(cs, st.A, form)
	r.Tags = []string{"C16"}
	res := r.call("token", func() *Resp { return r.A.Token(form, basic) })
	tokens := res.HasTokens()
	now := r.now()
	desc := fmt.Sprintf("device_token %s(%s, decision=%q) by %s auth=%s", dc.Name(), dc.State, g.Params["decision"], cs.ID, orOK(st.A))
	if val != dc.Val {
		desc += " mutate=" + st.p("mutate")
	}
	r.logf("%s -> %d %s", desc, res.Status, outcomeOf(res))
	r.Shape = append(r.Shape, "device_token:"+dc.State.String()+":"+g.Params["decision"])
	if res.Crashed {
		g.Unspec = true
		return
	}
	faulted := r.anyFault()
	if val == dc.Val {
		r.reconverged(g, "C16", dc.Name(), res, "GetDeviceCodeSession")
	}
	if val != dc.Val {
		if tokens {
			r.violate("C06", "tampered-accepted", "dc", "a mutated device code (%s) was exchanged for tokens", st.p("mutate"))
			r.violate("C16", "forged-device-code-accepted", st.p("mutate"), "a device code with a forged part (%s) was exchanged for tokens: device codes must be unguessable", st.p("mutate"))
		}
		if faulted {
			g.Unspec = true
		}
		r.resync(g, "a mutated device code was presented")
		return
	}
	if !r.authOK(cs, st.A) {
		r.judgeBadAuth("device_code", desc, res)
		return
	}
	if !has(cs.GrantTypes, grantDevice) {
		if tokens {
			r.violate("C16", "device-code-redeemed-without-grant-type", "", "%s: client lacks the device_code grant", desc)
		}
		return
	}
	if dc.Unspec || g.Unspec {
		if tokens {
			r.onDeviceSuccess(dc, cs, res)
		} else {
			g.Unspec = true
		}
		return
	}
	exp, _ := r.L.Expect(dc, now)
	if dc.State != Live {
		r.probe("device-replay")
		if tokens {
			r.violate("C16", "device-code-redeemed-twice", "", "%s: the device code had already been exchanged and yielded tokens again", desc)
			r.onDeviceSuccess(dc, cs, res)
			r.taint(g)
			return
		}
		if faulted {
			g.Unspec = true // the replay handling itself met a failure: how far the revocation got is unknowable
			return
		}
		if r.W.Store.Contract {
			// "where the store reports it as already used the tokens issued from it are revoked"
			r.probe("device-replay-contract-store")
			r.L.KillFamily(g, "C16")
		}
		r.probeAll("after the replay of " + dc.Name())
		return
	}
	if r.Fault.fired && !r.Fault.mustRefuse() {
		if tokens {
			r.onDeviceSuccess(dc, cs, res)
		}
		g.Unspec = true
		return
	}
	// admissible outcome classes: every class whose condition holds
	adm := map[string]bool{}
	refuse := false
	dec := g.Params["decision"]
	if exp == MustNot {
		adm["expired_token"] = true
		refuse = true
		r.probe("device-expired")
	}
	if exp == Unspec {
		adm["expired_token"] = true
	}
	if dec == "" {
		adm["authorization_pending"] = true
		refuse = true
		r.probe("device-pending")
	}
	if dec == "rejected" {
		adm["access_denied"] = true
		refuse = true
		r.probe("device-denied")
	}
	if cs.ID != g.Client {
		adm["invalid_grant"] = true
		refuse = true
		r.probe("device-wrong-client")
	}
	if refuse {
		if tokens {
			r.violate("C16", "device-tokens-must-refuse", dec+":"+fmt.Sprint(cs.ID == g.Client), "%s: tokens issued (decision %q, age %s of %s, flow started by %s)", desc, dec, now.Sub(dc.Issued), dc.Life, g.Client)
			if exp == MustNot {
				r.violate("C07", "honoured-but-must-not", "dc", "%s: an expired device code was exchanged", desc)
			}
			r.onDeviceSuccess(dc, cs, res)
			r.taint(g)
			return
		}
		if !faulted && !adm[res.ErrName] {
			r.violate("C16", "device-wrong-error-class", fmt.Sprintf("%v", keysOf(adm)), "%s: answered %q, admissible here: %v", desc, res.ErrName, keysOf(adm))
		}
		if faulted {
			g.Unspec = true
		}
		return
	}
	if faulted {
		if tokens {
			if r.Fault.mustRefuse() {
				r.violate("C18", "tokens-despite-storage-failure", "device_code", "%s: a storage call failed (%s) but the response carries tokens", desc, r.Fault.desc())
			}
			r.onDeviceSuccess(dc, cs, res)
		} else {
			g.Unspec = true
		}
		return
	}
	if tokens {
		r.onDeviceSuccess(dc, cs, res)
		return
	}
	if exp == Must && r.mustSucceedOK(g) {
		r.sanity("%s refused with %s (%v) although approved, unexpired, right client, first use", desc, res.ErrName, res.Err)
		g.Unspec = true
	}
}

func keysOf(m map[string]bool) []string {
	var out []string
	for k := range m {
		out = append(out, k)
	}
	sortStrings(out)
	return out
}

func (r *Run) onDeviceSuccess(dc *Cred, cs *ClientSpec, res *Resp) {
	g := dc.G
	r.L.Kill(dc, Spent, "C16")
	at, rt, id := r.recordTokenResponse(res, g, 0, "device_code", cs)
	r.logf("   issued %s", credNames(at, rt, id))
	r.probe("device-success")
	r.checkTokenResponse("device_code", g, cs, res, at, rt, id, nil)
	r.probeGrant(g, "right after issuance")
}

// ---------------------------------------------------------------------------
// PAR

func (r *Run) authzParams(st Step, cs *ClientSpec) (url.Values, string, string, string) {
	q := url.Values{}
	rtype := st.p("rt")
	if rtype == "" {
		rtype = "code"
	}
	q.Set("response_type", rtype)
	if s := st.p("scope"); s != "" {
		q.Set("scope", s)
	}
	if a := st.p("aud"); a != "" {
		q.Set("audience", a)
	}
	if redirect := r.redirectFor(cs, st.p("redirect")); redirect != "" {
		q.Set("redirect_uri", redirect)
	}
	state := st.p("state")
	if state == "" {
		state = fmt.Sprintf("pstate-%04d-abcdefgh", r.Idx)
	}
	if state != "omit" {
		q.Set("state", state)
	}
	if n := st.p("nonce"); n != "" {
		q.Set("nonce", n)
	}
	if m := st.p("mode"); m != "" {
		q.Set("response_mode", m)
	}
	var challenge, method, verifier string
	if pk := st.p("pkce"); pk == "S256" {
		r.verifierN++
		verifier = r.verifier(r.verifierN)
		challenge, method = s256(verifier), "S256"
		q.Set("code_challenge", challenge)
		q.Set("code_challenge_method", "S256")
		r.secret(verifier, "code_verifier(S256)")
	}
	return q, challenge, method, verifier
}

func (r *Run) opPARPush(st Step) {
	cs := r.clientSpec(st.C)
	form, challenge, method, verifier := r.authzParams(st, cs)
	if st.p("embed_request_uri") != "" {
		form.Set("request_uri", r.W.K.DocPARPrefix()+"embedded")
	}
	basic := r.applyAuth(cs, st.A, form)
	if form.Get("client_id") == "" && st.p("no_client_id") == "" && st.A != "unknown_client" && st.A != "none" && st.A != "as_other_query" {
		form.Set("client_id", cs.ID)
	}
	res := r.call("par", func() *Resp { return r.A.PAR(form, basic) })
	uri := res.Str("request_uri")
	desc := fmt.Sprintf("par_push %s auth=%s rt=%q scope=%q", cs.ID, orOK(st.A), form.Get("response_type"), form.Get("scope"))
	r.Shape = append(r.Shape, "par_push")
	if res.Crashed {
		r.logf("%s -> CRASHED", desc)
		return
	}
	if uri == "" {
		r.logf("%s -> %d %s", desc, res.Status, res.ErrName)
		if !r.authOK(cs, st.A) {
			r.probe("bad-client-auth:par")
			r.noWrites("par", desc)
		}
		if !r.authOK(cs, st.A) && !r.anyFault() && res.ErrName != "invalid_client" && res.ErrName != "invalid_request" {
			r.violate("C10", "wrong-error-class", "par", "%s: expected invalid_client/invalid_request, got %s", desc, res.ErrName)
		}
		return
	}
	if !r.authOK(cs, st.A) {
		r.violate("C10", "processed-without-client-auth", "par", "%s: a request was pushed although client authentication was invalid", desc)
		r.violate("C17", "push-without-client-auth", "", "%s: a request was pushed although client authentication was invalid", desc)
	}
	if st.p("embed_request_uri") != "" {
		r.violate("C17", "push-with-embedded-request-uri", "", "%s: a pushed request containing request_uri was accepted", desc)
	}
	if r.Fault.mustRefuse() {
		r.violate("C18", "success-despite-storage-failure", "par", "%s: a storage call failed (%s) but a request_uri was returned", desc, r.Fault.desc())
	}
	if !strings.HasPrefix(uri, r.W.K.DocPARPrefix()) {
		r.violate("C17", "request-uri-prefix", "", "request_uri %q lacks the configured prefix %q", truncate(uri, 60), r.W.K.DocPARPrefix())
	}
	if old, dup := r.L.ByVal[uri]; dup {
		r.violate("C06", "minted-value-repeated", "par", "request_uri repeated (%s)", old.Name())
	}
	now := r.now()
	c := r.L.AddCred(&Cred{Kind: "par", Val: uri, Client: cs.ID, Issued: now, Life: r.W.K.DocPARLife(), Endpoint: "par", Delivered: true, Extra: map[string]string{}})
	for k := range form {
		c.Extra[k] = form.Get(k)
	}
	c.Extra["_challenge"], c.Extra["_method"], c.Extra["_verifier"] = challenge, method, verifier
	r.checkMinted(uri, "par")
	if e, ok := res.JSON["expires_in"].(float64); ok {
		c.ExpiresIn = time.Duration(e) * time.Second
		if d := c.ExpiresIn - c.Life; d > Tol || d < -Tol {
			r.violate("C07", "expires-in-inconsistent", "par", "pushed authorization advertises expires_in=%s, the configured/documented lifetime is %s", c.ExpiresIn, c.Life)
		}
	}
	// same request validation as the authorization endpoint (C17) and the secure-redirect clause (C11)
	gg := &Grant{Client: cs.ID, Scopes: splitNonEmpty(form.Get("scope")), Audience: splitNonEmpty(form.Get("audience"))}
	r.checkConfinement("par", cs, gg, desc)
	ru := form.Get("redirect_uri")
	if ru != "" {
		if RefRedirectQualifies(ru, cs.RedirectURIs) == No {
			r.violate("C11", "par-accepted-unregistered-redirect", "", "%s: pushed redirect_uri %q does not qualify (registered %v)", desc, ru, cs.RedirectURIs)
			r.violate("C17", "par-accepted-unregistered-redirect", "", "%s: pushed redirect_uri %q does not qualify (registered %v)", desc, ru, cs.RedirectURIs)
		}
	}
	if ru == "" && len(cs.RedirectURIs) == 1 {
		ru = cs.RedirectURIs[0] // the single registered URI is the target
	}
	if ru != "" {
		if u, err := url.Parse(ru); err == nil && u.Scheme == "http" && !r.W.K.AllowInsecureRedirect {
			h := u.Hostname()
			if !(h == "localhost" || strings.HasSuffix(h, ".localhost") || isLoopbackIP(h)) {
				r.violate("C11", "insecure-redirect-accepted", "par:"+form.Get("response_type"), "the pushed-authorization endpoint accepted the plain-http redirect target %q (response_type %q)", ru, form.Get("response_type"))
			}
		}
	}
	r.logf("%s -> %s (expires_in %s)", desc, c.Name(), c.ExpiresIn)
}

func (r *Run) opAuthorizePAR(st Step) {
	pc := r.L.Select(st.G, "par")
	if st.p("latest") != "" {
		pc = r.L.SelectFromEnd(0, "par")
	}
	q := url.Values{}
	var cs *ClientSpec
	uri := ""
	switch st.V {
	case "unknown":
		cs = r.clientSpec(st.C)
		uri = r.W.K.DocPARPrefix() + "never-issued-" + fmt.Sprint(r.Idx)
		pc = nil
	case "foreign_prefix":
		cs = r.clientSpec(st.C)
		uri = "urn:example:other-prefix:" + fmt.Sprint(r.Idx)
		pc = nil
	default:
		if pc == nil {
			r.logf("authz_par: no request_uri yet")
			return
		}
		cs = r.presenter(st, pc.Client)
		uri = pc.Val
	}
	q.Set("client_id", cs.ID)
	q.Set("request_uri", uri)
	if st.p("inline") != "" {
		// a complete inline authorization request next to the (unknown / foreign) request_uri
		q.Set("response_type", "code")
		q.Set("scope", "photos")
		q.Set("state", fmt.Sprintf("istate-%04d-abcdefgh", r.Idx))
		if len(cs.RedirectURIs) > 0 {
			q.Set("redirect_uri", cs.RedirectURIs[0])
		}
	}
	if st.V == "foreign_prefix" && r.W.K.DocPARPrefix() == "urn:example:other-prefix:" {
		uri = "urn:example:yet-another-prefix:" + fmt.Sprint(r.Idx)
		q.Set("request_uri", uri)
	}
	// conflicting parameters sent alongside
	conflicts := []string{}
	for _, k := range []string{"scope", "state", "response_type", "response_mode", "audience", "nonce", "code_challenge", "code_challenge_method", "prompt"} {
		if v := st.p("x_" + k); v != "" {
			if v == "EMPTY" {
				v = "" // the parameter is present with an empty value
			}
			q.Set(k, v)
			conflicts = append(conflicts, k)
		}
	}
	if v := st.p("x_redirect"); v != "" {
		q.Set("redirect_uri", r.redirectFor(cs, v))
		conflicts = append(conflicts, "redirect_uri")
	}
	sub := st.p("sub")
	if sub == "" {
		sub = "user-P"
	}
	con := &Consent{Subject: sub, Deny: st.p("deny") != ""}
	r.parState = ""
	pushedRedirect := ""
	if pc != nil {
		r.parState = pc.Extra["state"]
		pushedRedirect = pc.Extra["redirect_uri"]
	}
	res := r.call("authorize", func() *Resp { return r.A.Authorize(q, con) })
	p := res.Params()
	started := p.Get("code") != "" || p.Get("access_token") != "" || p.Get("id_token") != ""
	desc := fmt.Sprintf("authz_par %s by %s conflicts=%v", uriName(r, uri), cs.ID, conflicts)
	r.logf("%s -> %d %s started=%v", desc, res.Status, res.ErrName, started)
	r.Shape = append(r.Shape, "authz_par")
	if res.Crashed {
		if pc != nil {
			pc.Unspec = true
		}
		return
	}
	if pc == nil {
		r.probe("par-" + st.V + "-uri")
		if st.V == "foreign_prefix" && !r.W.K.PAREnforced {
			return // without enforcement a request_uri outside the configured prefix is an ordinary (OpenID Connect) parameter
		}
		if started {
			// own prefix but never issued: never valid. Foreign prefix under enforcement: "authorization requests without a valid
			// request_uri are refused", whatever else the request carries inline
			r.violate("C17", "unknown-request-uri-started-authorization", st.V+t3(r.W.K.PAREnforced, ":enforced", ""), "%s: an authorization started from a request_uri the server never issued (pushing enforced: %v, inline parameters: %v)", desc, r.W.K.PAREnforced, st.p("inline") != "")
		}
		if res.Redirect != nil || res.FormPost != nil {
			owner := cs
			r.checkAuthorizeResponse(owner, q, res, "", false)
		}
		return
	}
	owner := r.specByID(pc.Client)
	if res.Redirect != nil || res.FormPost != nil {
		r.checkAuthorizeResponse(owner, q, res, pushedRedirect, true)
	}
	now := r.now()
	exp, _ := r.L.Expect(pc, now)
	faulted := r.anyFault()
	var mustRefuse []string
	if pc.State != Live {
		mustRefuse = append(mustRefuse, "C17")
		r.probe("par-reuse")
	}
	if exp == MustNot && pc.State == Live {
		mustRefuse = append(mustRefuse, "C07", "C17")
		r.probe("par-expired")
	}
	if cs.ID != pc.Client {
		mustRefuse = append(mustRefuse, "C17")
		r.probe("par-wrong-client")
	}
	if pc.Unspec {
		if started {
			r.L.Kill(pc, Spent, "C17")
		}
		return
	}
	if len(mustRefuse) > 0 {
		if started {
			for _, pr := range appendUniq(nil, mustRefuse...) {
				r.violate(pr, "par-must-refuse", fmt.Sprintf("%s:%v", pc.State, cs.ID == pc.Client), "%s: an authorization started although it had to be refused (request_uri %s, age %s of %s, pushed by %s)", desc, pc.State, now.Sub(pc.Issued), pc.Life, pc.Client)
			}
			r.L.Kill(pc, Spent, "C17")
		} else if pc.State == Live {
			pc.Unspec = true // a failed attempt may or may not consume the request_uri: not pinned down
		}
		return
	}
	if faulted {
		if started {
			// an authorization STARTED from this request_uri: whatever failed on the way, it has been used once (C17: at most one)
			r.L.Kill(pc, Spent, "C17")
			r.probe("par-started-despite-fault")
		} else {
			pc.Unspec = true
		}
		return
	}
	if !started {
		covered := true
		for _, sc := range splitNonEmpty(pc.Extra["scope"]) {
			if RefScopeMatch(r.W.K.ScopeStrategy, owner.Scopes, sc) != Yes {
				covered = false // the registration changed after the push: refusal is legitimate
			}
		}
		_ = covered // a pushed request may be unanswerable at authorization time (PKCE enforcement, registration changes, consent): no positive expectation
		pc.Unspec = true
		return
	}
	r.probe("par-success")
	if len(conflicts) > 0 {
		r.probe("par-success-with-conflicting-params")
	}
	r.L.Kill(pc, Spent, "C17")
	// the authorization proceeds with the PUSHED values
	pq := url.Values{}
	for k, v := range pc.Extra {
		if !strings.HasPrefix(k, "_") && k != "client_secret" && k != "client_assertion" && k != "client_assertion_type" {
			pq.Set(k, v)
		}
	}
	pq.Set("client_id", pc.Client)
	stp := Step{Op: "authz", P: map[string]string{"scope": pq.Get("scope"), "mode": pq.Get("response_mode"), "via_par": "1"}}
	g := r.afterAuthorize(stp, owner, res, pq, con, pc.Extra["_challenge"], pc.Extra["_method"], pc.Extra["_verifier"])
	if g == nil {
		return
	}
	g.ViaPAR = true
	// only parameters the pushed request itself carried can be "overridden"; a parameter that was not pushed and is
	// added in the query is outside the statement (the library keeps it) => such grants are not judged further
	var overridden, added []string
	for _, k := range conflicts {
		if pc.Extra[k] != "" {
			overridden = append(overridden, k)
		} else {
			added = append(added, k)
		}
	}
	g.Params["par_conflicts"] = strings.Join(overridden, ",")
	for _, k := range added {
		switch k {
		case "nonce":
			g.Nonce = q.Get("nonce")
		case "code_challenge", "code_challenge_method", "prompt", "audience", "scope":
			g.Unspec = true
			g.Vague = true
		}
	}
	if pushedRedirect == "" && q.Get("redirect_uri") != "" {
		g.Vague = true
		g.Unspec = true // the pushed request relied on the single registered URI; a redirect_uri added in the query is not an override of a pushed value: unspecified
	}
	// authoritative: redirect target, state, scope, response type/mode are the pushed ones
	if res.Redirect != nil && pushedRedirect != "" {
		pu, _ := url.Parse(pushedRedirect)
		if pu != nil && (res.Redirect.Scheme != pu.Scheme || res.Redirect.Host != pu.Host || res.Redirect.Path != pu.Path) {
			r.violate("C17", "pushed-value-overridden", "redirect_uri", "%s: redirected to %s://%s%s, pushed redirect_uri was %q", desc, res.Redirect.Scheme, res.Redirect.Host, res.Redirect.Path, pushedRedirect)
		}
	}
	if got := p.Get("state"); got != pc.Extra["state"] {
		r.violate("C17", "pushed-value-overridden", "state", "%s: state %q came back, pushed state was %q", desc, got, pc.Extra["state"])
	}
	if sc, ok := p["scope"]; ok && len(sc) > 0 && !sameSet(splitNonEmpty(sc[0]), splitNonEmpty(pc.Extra["scope"])) {
		r.violate("C17", "pushed-value-overridden", "scope", "%s: granted scope %q, pushed scope was %q", desc, sc[0], pc.Extra["scope"])
	}
	wantTypes := splitNonEmpty(pc.Extra["response_type"])
	gotCode, gotAT, gotID := p.Get("code") != "", p.Get("access_token") != "", p.Get("id_token") != ""
	if gotCode != has(wantTypes, "code") || gotAT != has(wantTypes, "token") || (gotID && !has(wantTypes, "id_token")) {
		r.violate("C17", "pushed-value-overridden", "response_type", "%s: response carries code=%v token=%v id_token=%v, pushed response_type was %q", desc, gotCode, gotAT, gotID, pc.Extra["response_type"])
	}
	// response mode: where the parameters were delivered
	mode := pc.Extra["response_mode"]
	if mode == "" {
		if len(wantTypes) == 1 && wantTypes[0] == "code" {
			mode = "query"
		} else {
			mode = "fragment"
		}
	}
	delivered := "query"
	if res.FormPost != nil {
		delivered = "form_post"
	} else if len(res.Fragment) > 0 {
		delivered = "fragment"
	}
	if mode == SimResponseMode {
		mode = "form_post" // the custom mode delivers like a form post
	}
	if delivered != mode {
		r.violate("C17", "pushed-value-overridden", "response_mode", "%s: parameters delivered via %s, pushed response_mode was %q", desc, delivered, mode)
	}
}

func uriName(r *Run, uri string) string {
	if c, ok := r.L.ByVal[uri]; ok {
		return c.Name() + "(" + c.State.String() + ")"
	}
	return "uri?" + shortHash(uri)
}

// ---------------------------------------------------------------------------
// JWT BEARER (RFC 7523 authorization grant)

func (r *Run) bearerAssertion(b *BearerKeySpec, over map[string]interface{}) (string, string) {
	r.assertN++
	now := r.now()
	jti := fmt.Sprintf("jb-jti-%d", r.assertN)
	claims := map[string]interface{}{"iss": b.Issuer, "sub": b.Subject, "aud": []string{TokenURL}, "jti": jti,
		"exp": now.Add(10 * time.Minute).Unix(), "iat": now.Unix()}
	keyName, alg, kid := b.KeyName, AlgFor(b.KeyName), b.KID
	for k, v := range over {
		switch k {
		case "hdr:alg":
			alg = v.(string)
		case "hdr:kid":
			kid = v.(string)
		case "key":
			keyName = v.(string)
		default:
			if s, ok := v.(string); ok && s == "-" {
				delete(claims, k)
			} else {
				claims[k] = v
			}
		}
	}
	if j, ok := claims["jti"].(string); ok {
		jti = j
	} else {
		jti = ""
	}
	return SignJWT(keyName, alg, kid, claims, nil), jti
}

func (r *Run) opJWTBearer(st Step) {
	cs := r.clientSpec(st.C)
	if len(r.W.K.BearerKeys) == 0 {
		r.logf("jwt_bearer: no keys registered")
		return
	}
	b := &r.W.K.BearerKeys[int(st.D)%len(r.W.K.BearerKeys)]
	assertion, _ := r.bearerAssertion(b, nil)
	form := url.Values{"grant_type": {grantJWTBearer}, "assertion": {assertion}}
	if s := st.p("scope"); s != "" {
		form.Set("scope", s)
	}
	var basic *Basic
	if !(r.W.K.JWTBearerSkipClientAuth && st.A == "none") {
		basic = r.applyAuth(cs, st.A, form)
	}
	res := r.call("token", func() *Resp { return r.A.Token(form, basic) })
	tokens := res.HasTokens()
	desc := fmt.Sprintf("jwt_bearer %s/%s key=%s by %s auth=%s scope=%q", b.Issuer, b.Subject, b.KID, cs.ID, orOK(st.A), st.p("scope"))
	r.logf("%s -> %d %s", desc, res.Status, outcomeOf(res))
	r.Shape = append(r.Shape, "jwt_bearer")
	if res.Crashed || !tokens {
		return
	}
	if !r.authOK(cs, st.A) && !r.W.K.JWTBearerSkipClientAuth {
		r.judgeBadAuth("jwt_bearer", desc, res)
	}
	if r.Fault.mustRefuse() {
		r.violate("C18", "tokens-despite-storage-failure", "jwt_bearer", "%s: a storage call failed (%s) but the response carries tokens", desc, r.Fault.desc())
	}
	g := r.L.NewGrant(&Grant{Client: cs.ID, Origin: "jwt_bearer", Subject: b.Subject, Scopes: splitNonEmpty(st.p("scope")), Audience: []string{TokenURL}, ReqAt: r.now()})
	if !r.authOK(cs, st.A) {
		g.Client = "" // client authentication was skipped (GrantTypeJWTBearerCanSkipClientAuth): no client is bound
	}
	at, rt, id := r.recordTokenResponse(res, g, 0, "jwt_bearer", cs)
	r.logf("   grant %d issued %s", g.N, credNames(at, rt, id))
	for _, s := range g.Scopes {
		if RefScopeMatch(r.W.K.ScopeStrategy, b.Scopes, s) == No {
			r.violate("C12", "scope-outside-registration", "jwt_bearer", "%s: scope %q is not covered by the signing key's scopes %v", desc, s, b.Scopes)
			r.violate("C15", "bearer-scope-outside-key", "", "%s: scope %q is not covered by the signing key's scopes %v", desc, s, b.Scopes)
		}
	}
	r.probeGrant(g, "right after issuance")
}

// ---------------------------------------------------------------------------
// OPERATOR OPS

func removeStr(xs []string, s string) []string {
	var out []string
	for _, x := range xs {
		if x != s {
			out = append(out, x)
		}
	}
	return out
}

func (r *Run) opClientChange(st Step) {
	cs := r.clientSpec(st.C)
	what, arg, _ := strings.Cut(st.V, ":")
	switch what {
	case "drop_scope":
		cs.Scopes = removeStr(cs.Scopes, arg)
	case "drop_aud":
		cs.Audience = removeStr(cs.Audience, arg)
	case "drop_all_aud":
		cs.Audience = nil
	case "drop_grant":
		cs.GrantTypes = removeStr(cs.GrantTypes, arg)
	case "add_scope":
		cs.Scopes = appendUniq(cs.Scopes, arg)
	case "rotate_secret":
		if !cs.Public && cs.Secret != "" {
			cs.Rotated = append(cs.Rotated, cs.Secret)
			cs.Secret = arg
			r.secret(arg, "client_secret")
		}
	case "drop_rotated":
		cs.Rotated = nil
	default:
		panic("client_change: " + st.V)
	}
	// the registration lives in the store's client table; the reference store keeps client records by pointer and
	// stored requests reference them, so the operator's update is made in place (a DB store re-reads the client by id)
	if st.p("how") == "replace" {
		// the operator replaces the registration record (store.Clients[id] = new object): requests stored earlier still
		// reference the old object - a database store would re-read the client by id instead
		r.W.Mem.Clients[cs.ID] = BuildClient(*cs)
		r.probe("client-change-by-replacement")
	} else {
		updateClientInPlace(r.W.Mem.Clients[cs.ID], BuildClient(*cs))
	}
	r.logf("client_change %s %s", cs.ID, st.V)
	r.Shape = append(r.Shape, "client_change:"+what)
	r.probe("client-change:" + what)
}

func (r *Run) opRotateGlobal(st Step) {
	k := r.W.K
	if k.Secret == "" {
		k.Secret = DefaultSecret
	}
	cur := k.Secret
	keep := func() {
		if cur != UnsetSecret {
			k.RotatedSecrets = append([]string{cur}, k.RotatedSecrets...)
		}
	}
	switch st.V {
	case "keep_old": // new current secret, old one listed as rotated
		keep()
		k.Secret = st.p("new")
	case "forget_old": // new current secret, old one NOT listed
		k.Secret = st.p("new")
	case "short": // a secret shorter than 32 bytes must be refused: nothing can be minted, nothing validates under it
		keep()
		k.Secret = st.p("new")
	case "unset": // the current secret is withdrawn and none takes its place: only the rotated list (incl. the old one) validates
		keep()
		k.Secret = UnsetSecret
	case "empty_rotated": // an unset entry slips into the rotated list (front or back)
		if st.p("pos") == "back" {
			k.RotatedSecrets = append(k.RotatedSecrets, "")
		} else {
			k.RotatedSecrets = append([]string{""}, k.RotatedSecrets...)
		}
	case "only_empty": // no usable secret at all: unset current secret, rotated list of unset entries
		k.Secret = UnsetSecret
		k.RotatedSecrets = []string{""}
		if st.p("n") == "2" {
			k.RotatedSecrets = []string{"", ""}
		}
	case "drop_rotated":
		k.RotatedSecrets = nil
	case "reverse_rotated":
		for i, j := 0, len(k.RotatedSecrets)-1; i < j; i, j = i+1, j-1 {
			k.RotatedSecrets[i], k.RotatedSecrets[j] = k.RotatedSecrets[j], k.RotatedSecrets[i]
		}
	}
	r.shortSecret = len(k.Secret) < 32
	r.shortRotated = false
	usable := !r.shortSecret
	for _, s := range k.RotatedSecrets {
		if len(s) < 32 {
			r.shortRotated = true // a too-short secret left in the rotated list aborts validation when it is tried before the right one
		} else {
			usable = true
		}
	}
	r.noUsableSecret = !usable
	r.L.ShortCurrentSecret = k.Secret != UnsetSecret && len(k.Secret) < 32
	r.W.Cfg.GlobalSecret = []byte(k.Secret)
	if k.Secret == UnsetSecret {
		r.W.Cfg.GlobalSecret = nil
	}
	r.W.Cfg.RotatedGlobalSecrets = nil
	for _, s := range k.RotatedSecrets {
		r.W.Cfg.RotatedGlobalSecrets = append(r.W.Cfg.RotatedGlobalSecrets, []byte(s))
	}
	// ledger: opaque credentials stay valid exactly while their minting secret is current or listed as rotated
	valid := map[string]bool{k.Secret: true}
	for _, s := range k.RotatedSecrets {
		valid[s] = true
	}
	for _, c := range r.L.Creds {
		if c.Extra == nil {
			c.Extra = map[string]string{}
		}
		if _, ok := c.Extra["minted_under"]; !ok {
			c.Extra["minted_under"] = cur
		}
		if strings.Count(c.Val, ".") == 1 && c.State == Live { // opaque HMAC credential
			if r.noUsableSecret {
				// neither the current nor any rotated secret is a usable (>= 32 byte) secret: nothing authenticates any more
				r.L.Kill(c, Dead, "C06")
			} else if r.shortSecret || r.shortRotated {
				// (while the CURRENT secret is the short one, Ledger.ShortCurrentSecret additionally expects every opaque
				// credential to be refused; what is honoured again afterwards stays unspecified)
				c.Unspec = true // a too-short current secret is refused; what still validates under the rotated list is not pinned down
			} else if !valid[c.Extra["minted_under"]] {
				r.L.Kill(c, Dead, "C06")
			}
		}
	}
	r.logf("rotate_global %s (rotated list now %d)", st.V, len(k.RotatedSecrets))
	r.Shape = append(r.Shape, "rotate_global:"+st.V)
	r.probe("rotate-global:" + st.V)
	r.probeAll("after rotating the global secret")
}

func (r *Run) opRestart(st Step) {
	r.W.Store.AbortOpenTx()
	r.W.Compose()
	r.logf("restart")
	r.Shape = append(r.Shape, "restart")
	r.probeAll("after a restart")
}

func updateClientInPlace(old, neu fosite.Client) {
	var od, nd *fosite.DefaultClient
	switch t := old.(type) {
	case *SimClient:
		od = t.DefaultClient
	case *SimOIDCClient:
		od = t.DefaultClient
	}
	switch t := neu.(type) {
	case *SimClient:
		nd = t.DefaultClient
	case *SimOIDCClient:
		nd = t.DefaultClient
	}
	if od != nil && nd != nil {
		*od = *nd
	}
}
