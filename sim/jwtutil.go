package sim

import (
	"crypto/hmac"
	"crypto/sha256"
	"crypto/sha512"
	"crypto/x509"
	"encoding/base64"
	"encoding/json"
	"encoding/pem"
	"fmt"
	"hash"
	"strings"
	"time"

	jose "github.com/go-jose/go-jose/v3"
)

func b64(b []byte) string { return base64.RawURLEncoding.EncodeToString(b) }

// SignJWT signs claims with a fixture key using go-jose directly (not fosite's token/jwt).
func SignJWT(keyName, alg, kid string, claims map[string]interface{}, extraHeader map[string]interface{}) string {
	payload, _ := json.Marshal(claims)
	switch alg {
	case "none":
		h := map[string]interface{}{"alg": "none", "typ": "JWT"}
		for k, v := range extraHeader {
			h[k] = v
		}
		hb, _ := json.Marshal(h)
		return b64(hb) + "." + b64(payload) + "."
	case "HS256", "HS384", "HS512":
		// symmetric signature keyed with the PEM of the public key (classic key-confusion attack)
		h := map[string]interface{}{"alg": alg, "typ": "JWT"}
		if kid != "" {
			h["kid"] = kid
		}
		for k, v := range extraHeader {
			h[k] = v
		}
		hb, _ := json.Marshal(h)
		input := b64(hb) + "." + b64(payload)
		der, _ := x509.MarshalPKIXPublicKey(PublicOf(Key(keyName)))
		secret := pem.EncodeToMemory(&pem.Block{Type: "PUBLIC KEY", Bytes: der})
		var hf func() hash.Hash
		switch alg {
		case "HS256":
			hf = sha256.New
		case "HS384":
			hf = sha512.New384
		default:
			hf = sha512.New
		}
		m := hmac.New(hf, secret)
		m.Write([]byte(input))
		return input + "." + b64(m.Sum(nil))
	}
	// an attacker signs with whatever algorithm the key he holds supports
	isRSAKey := strings.HasPrefix(keyName, "rsa")
	isRSAAlg := strings.HasPrefix(alg, "RS") || strings.HasPrefix(alg, "PS")
	if isRSAKey != isRSAAlg || (!isRSAKey && alg != AlgFor(keyName)) {
		alg = AlgFor(keyName)
	}
	opts := (&jose.SignerOptions{}).WithType("JWT")
	if kid != "" {
		opts = opts.WithHeader("kid", kid)
	}
	for k, v := range extraHeader {
		opts = opts.WithHeader(jose.HeaderKey(k), v)
	}
	signer, err := jose.NewSigner(jose.SigningKey{Algorithm: jose.SignatureAlgorithm(alg), Key: Key(keyName)}, opts)
	if err != nil {
		panic(fmt.Sprintf("SignJWT %s/%s: %v", keyName, alg, err))
	}
	obj, err := signer.Sign(payload)
	if err != nil {
		panic(err)
	}
	s, err := obj.CompactSerialize()
	if err != nil {
		panic(err)
	}
	return s
}

// VerifyJWT verifies a compact JWS with the public half of a fixture key, accepting only asymmetric algorithms.
func VerifyJWT(tok, keyName string) (header map[string]interface{}, claims map[string]interface{}, err error) {
	parts := strings.Split(tok, ".")
	if len(parts) != 3 {
		return nil, nil, fmt.Errorf("not a compact JWS")
	}
	hb, err := base64.RawURLEncoding.DecodeString(parts[0])
	if err != nil {
		return nil, nil, err
	}
	if err := json.Unmarshal(hb, &header); err != nil {
		return nil, nil, err
	}
	alg, _ := header["alg"].(string)
	switch alg {
	case "RS256", "RS384", "RS512", "ES256", "ES384", "ES512", "PS256", "PS384", "PS512":
	default:
		return header, nil, fmt.Errorf("algorithm %q is not asymmetric", alg)
	}
	obj, err := jose.ParseSigned(tok)
	if err != nil {
		return header, nil, err
	}
	payload, err := obj.Verify(PublicOf(Key(keyName)))
	if err != nil {
		return header, nil, err
	}
	if err := json.Unmarshal(payload, &claims); err != nil {
		return header, nil, err
	}
	return header, claims, nil
}

func leftHalfHash(alg, val string) string {
	var h hash.Hash
	switch {
	case strings.HasSuffix(alg, "384"):
		h = sha512.New384()
	case strings.HasSuffix(alg, "512"):
		h = sha512.New()
	default:
		h = sha256.New()
	}
	h.Write([]byte(val))
	s := h.Sum(nil)
	return b64(s[:len(s)/2])
}

func claimTime(c map[string]interface{}, k string) (time.Time, bool) {
	switch v := c[k].(type) {
	case float64:
		return time.Unix(int64(v), 0), true
	case json.Number:
		i, _ := v.Int64()
		return time.Unix(i, 0), true
	}
	return time.Time{}, false
}

func claimStrings(c map[string]interface{}, k string) []string {
	switch v := c[k].(type) {
	case string:
		return []string{v}
	case []interface{}:
		var out []string
		for _, x := range v {
			if s, ok := x.(string); ok {
				out = append(out, s)
			}
		}
		return out
	}
	return nil
}

// clientAssertion builds a private_key_jwt assertion for cs; over may override / delete ("-") claims and set
// header options via keys "hdr:alg", "hdr:kid", "key".
func (r *Run) clientAssertion(cs *ClientSpec, over map[string]interface{}) string {
	r.assertN++
	now := r.now()
	claims := map[string]interface{}{
		"iss": cs.ID, "sub": cs.ID, "aud": TokenURL,
		"jti": fmt.Sprintf("jti-%s-%d", cs.ID, r.assertN),
		"exp": now.Add(5 * time.Minute).Unix(), "iat": now.Unix(),
	}
	keyName, alg, kid := cs.KeyName, cs.AuthAlg, "kid-"+cs.KeyName
	if alg == "" {
		alg = AlgFor(cs.KeyName)
	}
	for k, v := range over {
		switch k {
		case "hdr:alg":
			alg = v.(string)
		case "hdr:kid":
			kid = v.(string)
		case "key":
			keyName = v.(string)
		default:
			if s, ok := v.(string); ok && s == "-" {
				delete(claims, k)
			} else {
				claims[k] = v
			}
		}
	}
	tok := SignJWT(keyName, alg, kid, claims, nil)
	r.secret(tok, "client_assertion")
	return tok
}

func jsonUnmarshal(b []byte, v interface{}) error { return json.Unmarshal(b, v) }
