//go:build l2

package sim

import (
	"encoding/json"
	"fmt"
	"os"
	"reflect"
	"sort"
	"strings"
	"sync"
	"testing"
	"time"

	"github.com/anishathalye/porcupine"

	"github.com/ory/fosite"
	"github.com/ory/fosite/storage"
)

// L2: deterministic store-internal interleaving. storage/memory.go of the CURRENT tree is compiled with its mutex
// operations replaced by a hook (go/ast rewrite supplied through `go build -overlay`; nothing is written under /repo).
// The scheduler models lock ownership itself, releases one task at a time and only a task whose next lock operation
// is grantable. Oracles: (1) deadlock = unfinished tasks, none runnable (reported with the wait-for cycle);
// (2) atomicity/linearizability = the return values and the final tables of the concurrent execution equal those of
// some sequential order of the same operations on the real store that respects real-time order (brute force, the
// sequential implementation is the specification); (3) the jti sub-history is additionally checked with porcupine
// against a set model.

type l2op struct {
	Method string
	task   *l2task
	inv    int // scheduler event number at invocation / return
	ret    int
	out    string
}

type l2task struct {
	id      int
	ops     []*l2op
	resume  chan struct{}
	event   chan string // "park" / "done"
	pendMu  string
	pendOp  string
	done    bool
	waiting bool // announced writer waiting for readers to drain
	panic   string
}

type l2lock struct {
	writer  *l2task
	readers map[*l2task]int
	pending *l2task // announced writer (blocks new readers, like sync.RWMutex)
}

type l2sched struct {
	locks   map[string]*l2lock
	tasks   []*l2task
	cur     *l2task
	event   int
	trace   []string
	branch  []int
	picks   []int
	pickIdx int
}

func (s *l2sched) lock(name string) *l2lock {
	l := s.locks[name]
	if l == nil {
		l = &l2lock{readers: map[*l2task]int{}}
		s.locks[name] = l
	}
	return l
}

// grantable: can the task's pending lock operation proceed now?
func (s *l2sched) grantable(t *l2task) bool {
	l := s.lock(t.pendMu)
	switch t.pendOp {
	case "Unlock", "RUnlock", "":
		return true
	case "Lock":
		return l.writer == nil && len(l.readers) == 0 && (l.pending == nil || l.pending == t)
	case "RLock":
		return l.writer == nil && l.pending == nil
	}
	return true
}

func (s *l2sched) apply(t *l2task) {
	l := s.lock(t.pendMu)
	switch t.pendOp {
	case "Lock":
		l.writer = t
		if l.pending == t {
			l.pending = nil
		}
	case "Unlock":
		if l.writer == t {
			l.writer = nil
		}
	case "RLock":
		l.readers[t]++
	case "RUnlock":
		if l.readers[t] > 0 {
			l.readers[t]--
			if l.readers[t] == 0 {
				delete(l.readers, t)
			}
		}
	}
}

func l2prefix() *storage.MemoryStore { return racePrefix() }

func outString(vals []reflect.Value) string {
	var parts []string
	for _, v := range vals {
		if !v.IsValid() {
			parts = append(parts, "<invalid>")
			continue
		}
		if v.Kind() == reflect.Interface || v.Kind() == reflect.Ptr {
			if v.IsNil() {
				parts = append(parts, "nil")
				continue
			}
		}
		x := v.Interface()
		switch t := x.(type) {
		case error:
			parts = append(parts, "err:"+fosite.ErrorToRFC6749Error(t).ErrorField+":"+t.Error())
		case fosite.Requester:
			parts = append(parts, "req:"+dumpReq(t))
		case string, bool, []string:
			parts = append(parts, fmt.Sprint(t))
		default:
			parts = append(parts, fmt.Sprintf("%T", x))
		}
	}
	return strings.Join(parts, "|")
}

func dumpStore(m *storage.MemoryStore) string {
	p := NewProxy(m, "plain")
	s := p.DumpTables()
	var jt []string
	for k := range m.BlacklistedJTIs {
		jt = append(jt, k)
	}
	sort.Strings(jt)
	return s + "jti:" + strings.Join(jt, ",")
}

// runL2 executes the tasks' operations concurrently under the lock-level scheduler with the given picks.
func runL2(methods [][]string, picks []int) (res struct {
	Ops      []*l2op
	Final    string
	Deadlock string
	Trace    []string
	Branch   []int
	Panic    string
}) {
	mem := l2prefix()
	recv := reflect.ValueOf(mem)
	mt := map[string]reflect.Method{}
	for _, m := range storeMethods() {
		mt[m.Name] = m
	}
	s := &l2sched{locks: map[string]*l2lock{}, picks: picks}
	storage.SimLockHook = func(mu *sync.RWMutex, name, op string) {
		t := s.cur
		t.pendMu, t.pendOp = name, op
		t.event <- "park"
		<-t.resume
	}
	defer func() { storage.SimLockHook = nil }()
	for i, ms := range methods {
		t := &l2task{id: i, resume: make(chan struct{}), event: make(chan string)}
		for _, m := range ms {
			t.ops = append(t.ops, &l2op{Method: m, task: t})
		}
		s.tasks = append(s.tasks, t)
	}
	// start every task; each runs until its first lock operation
	for _, t := range s.tasks {
		t := t
		s.cur = t
		go func() {
			defer func() {
				if p := recover(); p != nil {
					t.panic = fmt.Sprint(p)
				}
				t.event <- "done"
			}()
			<-t.resume
			for _, op := range t.ops {
				s.event++
				op.inv = s.event
				out := mt[op.Method].Func.Call(raceArgs(mt[op.Method], recv, t.id))
				s.event++
				op.ret = s.event
				op.out = outString(out)
				if op.Method == "Authenticate" {
					op.out = op.out[strings.Index(op.out, "|")+1:] // the reference store returns a random subject
				}
			}
		}()
		t.resume <- struct{}{}
		if e := <-t.event; e == "done" {
			t.done = true
		}
	}
	for steps := 0; steps < 2000; steps++ {
		var runnable []*l2task
		unfinished := 0
		for _, t := range s.tasks {
			if t.done {
				continue
			}
			unfinished++
			if s.grantable(t) {
				runnable = append(runnable, t)
			}
		}
		if unfinished == 0 {
			break
		}
		if len(runnable) == 0 {
			var w []string
			for _, t := range s.tasks {
				if !t.done {
					l := s.lock(t.pendMu)
					holder := "readers"
					if l.writer != nil {
						holder = fmt.Sprintf("task%d", l.writer.id)
					} else if l.pending != nil && l.pending != t {
						holder = fmt.Sprintf("pending writer task%d", l.pending.id)
					}
					w = append(w, fmt.Sprintf("task%d(%s) waits for %s.%s held by %s", t.id, strings.Join(methodsOf(t), ","), t.pendMu, t.pendOp, holder))
				}
			}
			res.Deadlock = strings.Join(w, "; ")
			break
		}
		k := 0
		if len(runnable) > 1 {
			if s.pickIdx < len(s.picks) {
				k = s.picks[s.pickIdx] % len(runnable)
			}
			s.pickIdx++
			s.branch = append(s.branch, len(runnable))
		}
		t := runnable[k]
		// a writer that finds readers announces itself (blocks new readers) - sync.RWMutex semantics
		s.apply(t)
		s.trace = append(s.trace, fmt.Sprintf("%d:%s.%s", t.id, t.pendMu, t.pendOp))
		s.cur = t
		t.pendMu, t.pendOp = "", ""
		t.resume <- struct{}{}
		if e := <-t.event; e == "done" {
			t.done = true
		}
		// announce writers that are now blocked by readers
		for _, o := range s.tasks {
			if !o.done && o.pendOp == "Lock" {
				l := s.lock(o.pendMu)
				if l.pending == nil && (len(l.readers) > 0 || l.writer != nil) {
					l.pending = o
				}
			}
		}
	}
	for _, t := range s.tasks {
		res.Ops = append(res.Ops, t.ops...)
		if t.panic != "" {
			res.Panic = t.panic
		}
	}
	if res.Deadlock == "" {
		res.Final = dumpStore(mem)
	}
	res.Trace, res.Branch = s.trace, s.branch
	return
}

func methodsOf(t *l2task) []string {
	var out []string
	for _, o := range t.ops {
		out = append(out, o.Method)
	}
	return out
}

// sequentialOutcomes: every sequential order (respecting program order per task) of whole operations on a fresh store.
func sequentialOutcomes(methods [][]string) []struct {
	Order []string
	Outs  map[string]string
	Final string
} {
	var results []struct {
		Order []string
		Outs  map[string]string
		Final string
	}
	mt := map[string]reflect.Method{}
	for _, m := range storeMethods() {
		mt[m.Name] = m
	}
	idx := make([]int, len(methods))
	var order [][2]int
	var rec func()
	rec = func() {
		done := true
		for t := range methods {
			if idx[t] < len(methods[t]) {
				done = false
				order = append(order, [2]int{t, idx[t]})
				idx[t]++
				rec()
				idx[t]--
				order = order[:len(order)-1]
			}
		}
		if done {
			mem := l2prefix()
			recv := reflect.ValueOf(mem)
			outs := map[string]string{}
			var names []string
			for _, o := range order {
				m := methods[o[0]][o[1]]
				out := mt[m].Func.Call(raceArgs(mt[m], recv, o[0]))
				key := fmt.Sprintf("%d.%d", o[0], o[1])
				outs[key] = outString(out)
				if m == "Authenticate" {
					outs[key] = outs[key][strings.Index(outs[key], "|")+1:]
				}
				names = append(names, key+":"+m)
			}
			results = append(results, struct {
				Order []string
				Outs  map[string]string
				Final string
			}{names, outs, dumpStore(mem)})
		}
	}
	rec()
	return results
}

type l2finding struct {
	Sig    string     `json:"sig"`
	Detail string     `json:"detail"`
	Tasks  [][]string `json:"tasks"`
	Picks  []int      `json:"picks"`
	Trace  []string   `json:"trace"`
}

func taskSetName(methods [][]string) string {
	var p []string
	for _, m := range methods {
		p = append(p, strings.Join(m, ","))
	}
	sort.Strings(p)
	return strings.Join(p, " || ")
}

type seqOutcome = struct {
	Order []string
	Outs  map[string]string
	Final string
}

// judgeL2 executes ONE lock-level schedule and judges it; returns the branching factors for the DFS.
func judgeL2(methods [][]string, picks []int, seq []seqOutcome, findings map[string]*l2finding, stats map[string]int) []int {
	r := runL2(methods, picks)
	stats["schedules"]++
	name := taskSetName(methods)
	add := func(sig, detail string) {
		if _, ok := findings[sig]; !ok {
			findings[sig] = &l2finding{Sig: sig, Detail: detail, Tasks: methods, Picks: picks, Trace: r.Trace}
		}
	}
	if r.Panic != "" {
		add("C19/panic/store:"+name, "panic inside the store: "+r.Panic)
		return r.Branch
	}
	if r.Deadlock != "" {
		stats["deadlocks"]++
		add("C19/deadlock/"+name, "lock-level schedule "+strings.Join(r.Trace, " ")+" ends in a deadlock: "+r.Deadlock)
		return r.Branch
	}
	for _, s := range seq {
		if s.Final != r.Final {
			continue
		}
		match := true
		for ti, t := range methods {
			for oi := range t {
				if s.Outs[fmt.Sprintf("%d.%d", ti, oi)] != r.Ops[indexOf(r.Ops, ti, oi)].out {
					match = false
				}
			}
		}
		if match {
			return r.Branch
		}
	}
	stats["non-linearizable"]++
	add("C19/not-atomic/"+name, "lock-level schedule "+strings.Join(r.Trace, " ")+": return values and final tables match no sequential order of the operations")
	return r.Branch
}

// exploreL2 runs every lock-level schedule of the given task set (stateless DFS, capped) and judges each.
func exploreL2(methods [][]string, cap int, findings map[string]*l2finding, stats map[string]int) {
	seq := sequentialOutcomes(methods)
	stack := [][]int{{}}
	n := 0
	for len(stack) > 0 && n < cap {
		picks := stack[len(stack)-1]
		stack = stack[:len(stack)-1]
		branch := judgeL2(methods, picks, seq, findings, stats)
		n++
		stack = append(stack, nextSchedules(picks, branch)...)
	}
	if len(stack) > 0 {
		stats["capped"]++
	}
}

func indexOf(ops []*l2op, task, idx int) int {
	n := 0
	for i, o := range ops {
		if o.task.id == task {
			if n == idx {
				return i
			}
			n++
		}
	}
	return 0
}

// --- porcupine: the jti memory as a set ----------------------------------------

type jtiIn struct {
	Op  string
	JTI string
}

func jtiModel() porcupine.Model {
	return porcupine.Model{
		Init: func() interface{} { return "k1," }, // the prefix store already remembers "k1"
		Step: func(state, input, output interface{}) (bool, interface{}) {
			st := state.(string)
			in := input.(jtiIn)
			known := strings.Contains(st, in.JTI+",")
			switch in.Op {
			case "ClientAssertionJWTValid":
				return output.(string) == map[bool]string{true: "known", false: "ok"}[known], st
			case "IsJWTUsed":
				return output.(string) == map[bool]string{true: "true", false: "false"}[known], st
			case "SetClientAssertionJWT", "MarkJWTUsedForTime":
				if known {
					return output.(string) == "known", st
				}
				return output.(string) == "ok", st + in.JTI + ","
			}
			return false, st
		},
		Equal: func(a, b interface{}) bool { return a == b },
	}
}

func TestL2(t *testing.T) {
	if os.Getenv("SIM_L2") == "" {
		t.Skip("SIM_L2 not set")
	}
	out := os.Getenv("SIM_L2_OUT")
	tier := os.Getenv("SIM_L2_TIER")
	shard, shards := 0, 1
	fmt.Sscanf(os.Getenv("SIM_L2_SHARD"), "%d/%d", &shard, &shards)
	findings := map[string]*l2finding{}
	stats := map[string]int{}
	ms := storeMethods()
	start := time.Now()
	// every unordered pair of single store operations: all lock-level schedules
	pair := 0
	for i := 0; i < len(ms); i++ {
		for j := i; j < len(ms); j++ {
			pair++
			if pair%shards != shard {
				continue
			}
			stats["pairs"]++
			cap := 400
			if tier == "thorough" {
				cap = 20000
			}
			exploreL2([][]string{{ms[i].Name}, {ms[j].Name}}, cap, findings, stats)
		}
	}
	// composite store operations (built from other locked operations: RotateRefreshToken = revoke refresh + revoke access,
	// RevokeAccessToken = delete by index + sweep) against every two-step observer over the refresh and access token tables, in
	// both orders: a composite that is not atomic shows only to a task that looks at both tables. All schedules up to the cap.
	rtOps := []string{"GetRefreshTokenSession", "DeleteRefreshTokenSession", "CreateRefreshTokenSession", "RevokeRefreshToken"}
	atOps := []string{"GetAccessTokenSession", "DeleteAccessTokenSession", "CreateAccessTokenSession", "RevokeAccessToken"}
	obs := 0
	for _, comp := range []string{"RotateRefreshToken", "RevokeAccessToken", "RevokeRefreshToken"} {
		for _, x := range rtOps {
			for _, y := range atOps {
				for _, pairXY := range [][]string{{x, y}, {y, x}} {
					obs++
					if obs%shards != shard {
						continue
					}
					stats["composite-observer-sets"]++
					cap := 1500
					if tier == "thorough" {
						cap = 40000
					}
					exploreL2([][]string{pairXY, {comp}}, cap, findings, stats)
				}
			}
		}
	}
	// seeded triples / two-operation sequences (sampled)
	seed := uint64(1)
	fmt.Sscanf(os.Getenv("VERIF_SEED"), "%d", &seed)
	tape := NewTape(seed*977 + uint64(shard))
	extra := 150
	if tier == "thorough" {
		extra = 3000
	}
	for k := 0; k < extra; k++ {
		nt := tape.Range(2, 3)
		var tasks [][]string
		for a := 0; a < nt; a++ {
			var seq []string
			for b := 0; b < tape.Range(1, 2); b++ {
				seq = append(seq, ms[tape.Intn(len(ms))].Name)
			}
			tasks = append(tasks, seq)
		}
		stats["sampled-task-sets"]++
		exploreL2(tasks, 60, findings, stats)
	}
	// porcupine on the jti memory: two tasks, each check-then-mark, every schedule
	jtiOps := [][]string{{"ClientAssertionJWTValid", "SetClientAssertionJWT"}, {"IsJWTUsed", "MarkJWTUsedForTime"}}
	if shard == 0 {
		stack := [][]int{{}}
		for len(stack) > 0 {
			picks := stack[len(stack)-1]
			stack = stack[:len(stack)-1]
			r := runL2(jtiOps, picks)
			var ops []porcupine.Operation
			for _, op := range r.Ops {
				o := "ok"
				switch {
				case strings.Contains(op.out, "jti_known"):
					o = "known"
				case op.out == "true|nil" || strings.HasPrefix(op.out, "true"):
					o = "true"
				case strings.HasPrefix(op.out, "false"):
					o = "false"
				}
				ops = append(ops, porcupine.Operation{ClientId: op.task.id, Input: jtiIn{op.Method, "k1"}, Call: int64(op.inv), Output: o, Return: int64(op.ret)})
			}
			stats["porcupine-histories"]++
			if res := porcupine.CheckOperationsTimeout(jtiModel(), ops, 30*time.Second); res == porcupine.Illegal {
				findings["C19/not-linearizable/jti-memory"] = &l2finding{Sig: "C19/not-linearizable/jti-memory", Detail: "the jti check/mark history is not linearizable w.r.t. a set (porcupine)", Tasks: jtiOps, Picks: picks, Trace: r.Trace}
			}
			stack = append(stack, nextSchedules(picks, r.Branch)...)
		}
	}
	stats["wall_ms"] = int(time.Since(start).Milliseconds())
	b, _ := json.Marshal(map[string]interface{}{"findings": findings, "stats": stats})
	if out != "" {
		_ = os.WriteFile(out, b, 0o644)
	} else {
		fmt.Println(string(b))
	}
}

// TestL2Replay re-executes one recorded lock-level schedule.
func TestL2Replay(t *testing.T) {
	path := os.Getenv("SIM_L2_REPLAY")
	if path == "" {
		t.Skip()
	}
	b, _ := os.ReadFile(path)
	var rf struct {
		Signature string     `json:"signature"`
		Property  string     `json:"property"`
		Tasks     [][]string `json:"tasks"`
		Picks     []int      `json:"picks"`
	}
	_ = json.Unmarshal(b, &rf)
	findings := map[string]*l2finding{}
	judgeL2(rf.Tasks, rf.Picks, sequentialOutcomes(rf.Tasks), findings, map[string]int{})
	for sig, f := range findings {
		fmt.Println(sig, ":", f.Detail)
		if sig == rf.Signature {
			fmt.Printf("VIOLATION property=%s replay=%s\n", rf.Property, path)
			os.Exit(1)
		}
	}
	fmt.Println("not reproduced")
}
