package sim

import (
	"encoding/binary"
	"errors"
	"sync"
)

// splitmix64 based PRNG: one integer decides everything.
type Tape struct {
	s uint64
	n uint64 // number of draws (for evidence)
}

func mix64(z uint64) uint64 {
	z = (z ^ (z >> 30)) * 0xBF58476D1CE4E5B9
	z = (z ^ (z >> 27)) * 0x94D049BB133111EB
	return z ^ (z >> 31)
}

func NewTape(seed uint64) *Tape { return &Tape{s: mix64(mix64(seed+0x1234567) ^ 0xD1B54A32D192ED03)} }

func (t *Tape) U64() uint64 {
	t.n++
	t.s += 0x9E3779B97F4A7C15
	z := t.s
	z = (z ^ (z >> 30)) * 0xBF58476D1CE4E5B9
	z = (z ^ (z >> 27)) * 0x94D049BB133111EB
	return z ^ (z >> 31)
}
func (t *Tape) Intn(n int) int {
	if n <= 0 {
		return 0
	}
	return int(t.U64() % uint64(n))
}
func (t *Tape) Bool() bool        { return t.U64()&1 == 1 }
func (t *Tape) Chance(p int) bool { return t.Intn(100) < p } // p percent
func (t *Tape) Pick(xs []string) string {
	if len(xs) == 0 {
		return ""
	}
	return xs[t.Intn(len(xs))]
}
func (t *Tape) Range(lo, hi int) int { // inclusive
	if hi <= lo {
		return lo
	}
	return lo + t.Intn(hi-lo+1)
}

// Weighted pick: returns index.
func (t *Tape) Weighted(w []int) int {
	tot := 0
	for _, x := range w {
		tot += x
	}
	if tot == 0 {
		return 0
	}
	r := t.Intn(tot)
	for i, x := range w {
		if r < x {
			return i
		}
		r -= x
	}
	return len(w) - 1
}

// EntropyStream replaces crypto/rand.Reader during a run. Deterministic counting stream with
// fault modes (error / short read) addressable by draw index.
type EntropyStream struct {
	mu     sync.Mutex
	s      uint64
	Draws  int            // number of Read calls
	Bytes  int            // bytes served
	Log    [][]byte       // every chunk served (for the C06 pass-through oracle); bounded
	FailAt map[int]string // draw index -> "err" | "short"
	Fired  map[string]int
}

func NewEntropyStream(seed uint64) *EntropyStream {
	return &EntropyStream{s: mix64(seed ^ 0xA5A5A5A55A5A5A5A), FailAt: map[int]string{}, Fired: map[string]int{}}
}

var errEntropy = errors.New("simulated entropy source failure")

func (e *EntropyStream) next() uint64 {
	e.s += 0x9E3779B97F4A7C15
	z := e.s
	z = (z ^ (z >> 30)) * 0xBF58476D1CE4E5B9
	z = (z ^ (z >> 27)) * 0x94D049BB133111EB
	return z ^ (z >> 31)
}

func (e *EntropyStream) Read(p []byte) (int, error) {
	e.mu.Lock()
	defer e.mu.Unlock()
	idx := e.Draws
	e.Draws++
	if mode, ok := e.FailAt[idx]; ok {
		e.Fired["rand-"+mode]++
		if mode == "err" {
			return 0, errEntropy
		}
		// short read: serve half, then error
		n := len(p) / 2
		e.fill(p[:n])
		return n, errEntropy
	}
	e.fill(p)
	return len(p), nil
}

func (e *EntropyStream) fill(p []byte) {
	var buf [8]byte
	for i := 0; i < len(p); i += 8 {
		binary.LittleEndian.PutUint64(buf[:], e.next())
		copy(p[i:], buf[:])
	}
	e.Bytes += len(p)
	if len(e.Log) < 4096 {
		c := make([]byte, len(p))
		copy(c, p)
		e.Log = append(e.Log, c)
	}
}

// Pick2 returns a or b with equal probability.
func (t *Tape) Pick2(a, b int) int {
	if t.Bool() {
		return a
	}
	return b
}
