package sim

import (
	"fmt"
	"net/url"
	"os"
	"testing"
	"time"

	"github.com/ory/fosite"
	"github.com/ory/fosite/compose"
	"github.com/ory/fosite/storage"
)

// JWKS-fetcher probe (C10 / C15). NOT simulation: fosite.DefaultJWKSFetcherStrategy keeps its key sets in a ristretto cache whose
// background goroutines a synctest bubble cannot host, so inside the simulator the strategy is replaced at its seam by the simulated
// network. This probe runs the library's own fetcher (real time, real cache) over the simulated network's RoundTripper and asks the one
// question the cache can get wrong: does a client's assertion verify only under the key set published at THAT client's jwks_uri?
// The cache fills asynchronously, so a miss is possible; an alarm is not (the forged presentations below are never valid).
func TestJWKSFetcherProbe(t *testing.T) {
	if os.Getenv("SIM_JWKS_PROBE") == "" {
		t.Skip("SIM_JWKS_PROBE not set")
	}
	loadKeys()
	net := NewSimNet()
	k := &Knobs{Store: "plain"}
	mk := func(id, uri, key string) ClientSpec {
		return ClientSpec{ID: id, OIDC: true, AuthMethod: "private_key_jwt", KeyName: key, AuthAlg: AlgFor(key), JWKSURI: uri,
			GrantTypes: []string{"client_credentials"}, Scopes: []string{"photos"}, RedirectURIs: []string{"https://" + id + ".sim/cb"}}
	}
	// key-set locations that differ in the query only, in the path only, in the host's letter case only, in a trailing slash
	specs := []ClientSpec{
		mk("jw-a", "https://keys.sim/jwks.json?tenant=a", "rsa2"),
		mk("jw-b", "https://keys.sim/jwks.json?tenant=b", "rsa3"),
		mk("jw-c", "https://keys.sim/other/jwks.json", "rsa1"),
		mk("jw-d", "https://keys.sim/other/jwks.json/", "ec_p256_0"),
		mk("jw-e", "https://keys.sim/jwks.json", "ec_p256_1"),
	}
	cfg := k.BuildConfig(net)
	cfg.JWKSFetcherStrategy = fosite.NewDefaultJWKSFetcherStrategy(fosite.JWKSFetcherWithHTTPClient(net.RetryableClient()))
	mem := storage.NewMemoryStore()
	for i := range specs {
		cs := specs[i]
		cs.KeyName = "" // the registration publishes its keys at jwks_uri only
		cs.JWKSURI = specs[i].JWKSURI
		c := BuildClient(cs)
		mem.Clients[cs.ID] = c
		net.JWKS[specs[i].JWKSURI] = JWKSFor(specs[i].KeyName)
	}
	app := raceApp{compose.ComposeAllEnabled(cfg, mem, Key("rsa0"))}
	n := 0
	present := func(cs *ClientSpec, keyOf *ClientSpec) bool {
		n++
		claims := map[string]interface{}{"iss": cs.ID, "sub": cs.ID, "aud": TokenURL, "jti": fmt.Sprintf("probe-jti-%d", n),
			"exp": time.Now().Add(5 * time.Minute).Unix(), "iat": time.Now().Unix()}
		a := SignJWT(keyOf.KeyName, AlgFor(keyOf.KeyName), "kid-"+keyOf.KeyName, claims, nil)
		res := app.token(url.Values{"grant_type": {"client_credentials"}, "scope": {"photos"},
			"client_assertion_type": {"urn:ietf:params:oauth:client-assertion-type:jwt-bearer"}, "client_assertion": {a}}, nil)
		return res.HasTokens()
	}
	probes, bad := 0, 0
	for round := 0; round < 3; round++ {
		for i := range specs {
			// the client's own key must work (otherwise the probe proves nothing) and warms the cache for its location
			if !present(&specs[i], &specs[i]) {
				fmt.Printf("JWKS-PROBE SANITY %s could not authenticate with its own key\n", specs[i].ID)
			}
			time.Sleep(30 * time.Millisecond) // ristretto applies writes asynchronously
			for j := range specs {
				if i == j {
					continue
				}
				probes++
				// client j presents an assertion signed with client i's key (whose key set was fetched a moment ago)
				if present(&specs[j], &specs[i]) {
					bad++
					fmt.Printf("JWKS-PROBE VIOLATION client %s (jwks_uri %s) authenticated with the key published at %s\n", specs[j].ID, specs[j].JWKSURI, specs[i].JWKSURI)
				}
			}
		}
	}
	fmt.Printf("JWKS-PROBE presentations=%d forged_accepted=%d fetches=%d\n", probes, bad, net.Fetches)
}
