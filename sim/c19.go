package sim

import (
	"fmt"
	"testing"
)

// Scenarios for exhaustive schedule enumeration (two tasks) and sampling (two or three tasks).

type concScenario struct {
	Name  string
	Setup []Step
	Sub   []Step
	V     string
	N     int64
	Heavy bool // too many interleavings for the quick tier: DFS is capped there, complete in the thorough tier
	Knobs func(k *Knobs)
	Prop  string
}

func jwtClients(k *Knobs) {
	k.Clients = append(k.Clients, ClientSpec{ID: "oidc-jwt", OIDC: true, AuthMethod: "private_key_jwt", KeyName: "rsa2", AuthAlg: "RS256", RedirectURIs: []string{"https://app-j.sim/cb"},
		GrantTypes: []string{"client_credentials", "authorization_code", "refresh_token", grantJWTBearer}, ResponseTypes: []string{"code"}, Scopes: []string{"photos", "offline", "openid"}, Audience: []string{"https://api.sim/v1"}})
}

func concScenarios() []concScenario {
	sc := "offline photos"
	code := []Step{st("authz", 0, 0, "scope", sc)}
	tok := append(append([]Step{}, code...), Step{Op: "redeem", C: -1, G: 0})
	return []concScenario{
		{Name: "refresh||refresh(same RT)", Setup: tok, Sub: []Step{{Op: "refresh", C: -1, G: 0}, {Op: "refresh", C: -1, G: 0}}},
		{Name: "refresh||revoke(RT)", Setup: tok, Sub: []Step{{Op: "refresh", C: -1, G: 0}, {Op: "revoke", C: -1, G: 1}}},
		{Name: "refresh||revoke(AT)", Setup: tok, Sub: []Step{{Op: "refresh", C: -1, G: 0}, {Op: "revoke", C: -1, G: 0}}},
		{Name: "refresh||introspect", Setup: tok, Sub: []Step{{Op: "refresh", C: -1, G: 0}, {Op: "introspect", C: 0, G: 0}}},
		{Name: "revoke||introspect", Setup: tok, Sub: []Step{{Op: "revoke", C: -1, G: 0}, {Op: "introspect", C: 0, G: 0}}},
		{Name: "revoke||revoke", Setup: tok, Sub: []Step{{Op: "revoke", C: -1, G: 0}, {Op: "revoke", C: -1, G: 1}}},
		{Name: "redeem||redeem(same code)", Setup: code, Sub: []Step{{Op: "redeem", C: -1, G: 0}, {Op: "redeem", C: -1, G: 0}}, Heavy: true},
		{Name: "redeem(replay)||refresh", Setup: tok, Sub: []Step{{Op: "redeem", C: -1, G: 0}, {Op: "refresh", C: -1, G: 0}}, Heavy: true},
		{Name: "redeem||authz", Setup: code, Sub: []Step{{Op: "redeem", C: -1, G: 0}, st("authz", 1, 0, "scope", "photos")}, Heavy: true},
		{Name: "device_token||device_token", Setup: []Step{st("device_authz", 0, 0, "scope", sc), {Op: "device_decide", G: 0, V: "accept"}},
			Sub: []Step{{Op: "device_token", C: -1, G: 0}, {Op: "device_token", C: -1, G: 0}}, Heavy: true},
		{Name: "authz_par||authz_par(same uri)", Setup: []Step{st("par_push", 0, 0, "scope", sc)}, Sub: []Step{{Op: "authz_par", C: -1, G: 0}, {Op: "authz_par", C: -1, G: 0}}},
		{Name: "client_assertion x2 (same jti)", V: "same_client_assertion", N: 2, Knobs: jwtClients, Prop: "C15"},
		{Name: "bearer_assertion x2 (same jti)", V: "same_bearer_assertion", N: 2, Knobs: jwtClients, Prop: "C15"},
	}
}

func concPlan(s concScenario, store string, jwt bool, picks []int) *Plan {
	k := Knobs{Clients: baseClients(nil), Users: map[string]string{"peter": "peters-password"}, Store: store, BearerKeys: bearerKeys(), JWTAccess: jwt}
	if s.Knobs != nil {
		s.Knobs(&k)
	}
	steps := append([]Step{}, s.Setup...)
	steps = append(steps, Step{Op: "concurrent", Sub: s.Sub, V: s.V, D: s.N, S: picks})
	steps = append(steps, Step{Op: "probe_all"})
	return &Plan{Profile: "concenum", Prop: "C19", K: k, Steps: steps, Seed: 19, Note: s.Name}
}

// enumerateConc explores every schedule of every (light) scenario by stateless DFS; heavy ones are capped in the quick tier.
func enumerateConcFor(prop string) func(t *testing.T, job *Job, out *WorkerOut, found map[string]*Found) map[string]interface{} {
	return func(t *testing.T, job *Job, out *WorkerOut, found map[string]*Found) map[string]interface{} {
		states, shapes := map[string]bool{}, map[string]bool{}
		spec := PropSpecs[prop]
		per := map[string]interface{}{}
		total := 0
		scs := concScenarios()
		for si, s := range scs {
			if prop == "C15" && s.Prop != "C15" {
				continue
			}
			if si%job.Workers != job.Worker && !(s.Heavy && job.Tier == "thorough") {
				continue
			}
			cap := 1000
			if job.Tier == "thorough" {
				cap = 200000
			}
			// heavy scenarios in the thorough tier: shard the DFS by the first decisions across all workers
			stack := [][]int{{}}
			if s.Heavy && job.Tier == "thorough" {
				stack = shardPrefixes(t, s, job)
			}
			n, complete := 0, true
			seenSched := map[string]bool{}
			for len(stack) > 0 {
				if n >= cap {
					complete = false
					break
				}
				picks := stack[len(stack)-1]
				stack = stack[:len(stack)-1]
				plan := concPlan(s, "plain", false, picks)
				plan.Prop = prop
				res := Execute(t, plan)
				n++
				for _, sc := range res.Schedules {
					seenSched[sc] = true
				}
				absorb(t, job, out, found, states, shapes, spec, plan, res)
				stack = append(stack, nextSchedules(picks, res.Branching)...)
			}
			total += n
			per[s.Name] = map[string]interface{}{"schedules": n, "distinct_schedules": len(seenSched), "complete": complete && !(s.Heavy && job.Tier == "thorough")}
			if s.Heavy && job.Tier == "thorough" {
				per[s.Name].(map[string]interface{})["sharded"] = true
				per[s.Name].(map[string]interface{})["complete"] = complete
			}
		}
		for s := range shapes {
			out.Shapes = append(out.Shapes, "enum:"+s)
		}
		return map[string]interface{}{"schedule_enumeration": per, "schedules_this_worker": total}
	}
}

// shardPrefixes expands the schedule tree to depth 4 and returns the prefixes owned by this worker.
func shardPrefixes(t *testing.T, s concScenario, job *Job) [][]int {
	frontier := [][]int{{}}
	for depth := 0; depth < 4; depth++ {
		var next [][]int
		for _, p := range frontier {
			if len(p) < depth {
				next = append(next, p)
				continue
			}
			res := Execute(t, concPlan(s, "plain", false, p))
			if len(res.Branching) <= len(p) {
				next = append(next, p)
				continue
			}
			for alt := 0; alt < res.Branching[len(p)]; alt++ {
				next = append(next, append(append([]int{}, p...), alt))
			}
		}
		frontier = next
	}
	var mine [][]int
	for i, p := range frontier {
		if i%job.Workers == job.Worker {
			mine = append(mine, p)
		}
	}
	// within a shard only deeper siblings are generated (nextSchedules never changes the prefix), so shards are disjoint
	return mine
}

func init() {
	regProp(&PropSpec{ID: "C19", Profiles: []string{"c19"}, Characteristic: []string{}, Enumerate: enumerateConcFor("C19")})
	// sampled: two or three concurrent operations on overlapping credentials inside longer histories, random picks
	reg(&Profile{Name: "c19", Prop: "C19", Gen: func(t *Tape) *Plan {
		k := swarmKnobs(t)
		k.Store = "plain" // C19 is about the reference store
		k.BearerKeys = bearerKeys()
		jwtClients(&k)
		m := mix{authz: 16, hybrid: 4, redeem: 18, refresh: 10, device: 10, par: 6, password: 4, advance: 2, pkce: 10}
		steps := genHistory(t, &k, m, t.Range(6, 16))
		for phase := 0; phase < t.Range(1, 3); phase++ {
			n := t.Range(2, 3)
			var sub []Step
			for i := 0; i < n; i++ {
				switch t.Intn(8) {
				case 0, 1:
					sub = append(sub, Step{Op: "redeem", C: -1, G: t.Intn(4)})
				case 2, 3:
					sub = append(sub, Step{Op: "refresh", C: -1, G: t.Intn(3), V: t.Pick([]string{"", "latest"})})
				case 4:
					sub = append(sub, Step{Op: "revoke", C: -1, G: t.Intn(4)})
				case 5:
					sub = append(sub, Step{Op: "introspect", C: 0, G: t.Intn(4)})
				case 6:
					sub = append(sub, Step{Op: "device_token", C: -1, G: t.Intn(2)})
				case 7:
					sub = append(sub, Step{Op: t.Pick([]string{"authz_par", "authz"}), C: t.Intn(3), G: t.Intn(2), P: map[string]string{"scope": "photos"}})
				}
			}
			var picks []int
			for i := 0; i < 40; i++ {
				picks = append(picks, t.Intn(3))
			}
			steps = append(steps, Step{Op: "concurrent", Sub: sub, S: picks})
			steps = append(steps, genHistory(t, &k, mix{refresh: 10, introspect: 10, redeem: 5, revoke: 3}, t.Range(1, 4))...)
		}
		return &Plan{Profile: "c19", Prop: "C19", K: k, Steps: steps}
	}})
}

var _ = fmt.Sprintf
