package sim

import (
	"crypto/rand"
	"crypto/sha256"
	"encoding/base64"
	"encoding/hex"
	"encoding/json"
	"fmt"
	"io"
	"net/url"
	"regexp"
	"runtime"
	"sort"
	"strings"
	"testing"
	"testing/synctest"
	"time"

	"github.com/google/uuid"

	"github.com/ory/fosite"
)

// ---------------------------------------------------------------------------
// Plan: explicit, symbolic, JSON-serialisable. The executor is a pure function of (plan, code under test).

type Step struct {
	Op  string            `json:"op"`
	C   int               `json:"c,omitempty"` // acting client index (-1: the credential's owner)
	G   int               `json:"g,omitempty"` // credential selector
	V   string            `json:"v,omitempty"` // variant
	A   string            `json:"a,omitempty"` // client-auth variant ("" = ok)
	P   map[string]string `json:"p,omitempty"` // literals
	D   int64             `json:"d,omitempty"` // milliseconds (advance) / generic integer
	F   *FaultSpec        `json:"f,omitempty"`
	F2  *FaultSpec        `json:"f2,omitempty"`  // second fault of a pair (armed together; fires independently)
	S   []int             `json:"s,omitempty"`   // schedule picks (concurrent steps)
	Sub []Step            `json:"sub,omitempty"` // concurrent sub-operations
}

type FaultSpec struct {
	Kind string `json:"kind"`           // store-err | store-notfound | store-inactive | store-serial | lost-ack | crash-before | crash-after | begin-fail | commit-fail | rollback-fail | rand-err | rand-short | resp-lost | net-*
	At   int    `json:"at"`             // storage call index within the request (or entropy draw index offset)
	Call string `json:"call,omitempty"` // optional: only if the call name matches (robust under minimisation)
}

type Plan struct {
	Seed    uint64 `json:"seed"`
	Profile string `json:"profile"`
	Prop    string `json:"property"`
	K       Knobs  `json:"knobs"`
	Steps   []Step `json:"steps"`
	Note    string `json:"note,omitempty"`
}

func (s Step) p(k string) string {
	if s.P == nil {
		return ""
	}
	return s.P[k]
}

// ---------------------------------------------------------------------------

type Run struct {
	Plan *Plan
	W    *World
	A    *App
	L    *Ledger
	Ent  *EntropyStream

	Viol           []Violation
	Sanity         []string // workload could not make progress where every known reason for refusal is absent
	Log            []string
	Idx            int // current step index
	Stats          map[string]int
	Probes         map[string]int // rare-branch probes
	Tags           []string       // properties whose "leaves everything else untouched" clause covers the current step
	Start          time.Time
	Secrets        map[string]string // cleartext secret -> label (C20 storage monitor)
	Canaries       map[string]bool
	storageSeen    map[string]string // every value handed to storage so far -> where (retrospective secret check)
	verifierN      int
	assertN        int
	lastAuthz      *authzInfo
	parState       string
	sigSeen        map[string]int
	tablesBefore   string
	jtis           map[string]*jtiRec
	lastAssertion  map[string]string
	lastJTI        map[string]string
	assertExp      time.Time
	entFiredSeen   int
	keyParts       map[string]string
	shortSecret    bool
	shortRotated   bool
	noUsableSecret bool // no current or rotated secret of at least 32 bytes is configured: no opaque credential may be accepted
	writeMark      int
	branching      []int    // branching factor at each scheduling decision of the concurrent steps
	schedules      []string // storage-call schedules of the concurrent steps
	Fault          *faultState
	StateSeen      map[string]bool
	Shape          []string // abstract history shape
	NoProbe        bool
	T              *testing.T
}

func (r *Run) now() time.Time { return time.Now() }

func (r *Run) logf(f string, a ...interface{}) {
	r.Log = append(r.Log, fmt.Sprintf("%3d t=%s ", r.Idx, r.now().Sub(r.Start).Round(time.Millisecond))+fmt.Sprintf(f, a...))
}

func (r *Run) violate(prop, rule, key, f string, a ...interface{}) {
	v := Violation{Prop: prop, Rule: rule, Key: key, Detail: fmt.Sprintf(f, a...), Step: r.Idx}
	if r.sigSeen == nil {
		r.sigSeen = map[string]int{}
	}
	r.sigSeen[v.Sig()]++
	if r.sigSeen[v.Sig()] > 1 {
		return // one report per signature per run
	}
	r.Viol = append(r.Viol, v)
	r.logf("!! VIOLATION %s: %s", v.Sig(), v.Detail)
}

// taint: after a violation was reported about a grant, the ledger no longer matches the server for that grant;
// it is excluded from further judgement so that one defect is reported once and does not cascade.
func (r *Run) taint(g *Grant) {
	if g != nil {
		g.Unspec = true
		g.Vague = true
	}
}

func (r *Run) sanity(f string, a ...interface{}) {
	if r.shortSecret || r.shortRotated {
		return // a global secret shorter than 32 bytes is refused: nothing can be minted, every request that mints fails
	}
	s := fmt.Sprintf("step %d: ", r.Idx) + fmt.Sprintf(f, a...)
	r.Sanity = append(r.Sanity, s)
	r.logf("?? SANITY %s", s)
}

func (r *Run) stat(k string)  { r.Stats[k]++ }
func (r *Run) probe(k string) { r.Probes[k]++ }

// name returns the symbolic name of a token value (never log raw bytes).
func (r *Run) name(val string) string {
	if val == "" {
		return "-"
	}
	if c, ok := r.L.ByVal[val]; ok {
		return c.Name()
	}
	return "tok?" + shortHash(val)
}

func shortHash(s string) string {
	h := sha256.Sum256([]byte(s))
	return hex.EncodeToString(h[:3])
}

func (r *Run) secret(val, label string) {
	if val == "" {
		return
	}
	if _, known := r.Secrets[val]; known {
		return
	}
	r.Secrets[val] = label
	if where, ok := r.storageSeen[val]; ok {
		i := strings.Index(where, ":")
		r.violate("C20", "storage-secret", where+":"+label, "%s received the cleartext %s as %s", where[:i], label, where[i+1:])
		if label == "device_code" || label == "user_code" {
			r.violate("C16", "code-stored-in-cleartext", where+":"+label, "%s received the cleartext %s as %s (device and user codes are stored only as signatures)", where[:i], label, where[i+1:])
		}
	}
}

// ---------------------------------------------------------------------------

type Result struct {
	Plan         *Plan
	Violations   []Violation
	Sanity       []string
	Log          []string
	LogHash      string
	Stats        map[string]int
	Probes       map[string]int
	SimTime      time.Duration
	Steps        int
	States       []string
	Shape        string
	Panic        string
	PanicStack   string
	Branching    []int
	Schedules    []string
	EntropyDraws int
	StoreCalls   int
}

// Credential VALUES are not part of an execution's identity: JWTs signed with an ECDSA key carry real randomness (go-jose keeps
// the reader it found at init), and a violation's detail may quote a response. The hash is taken over the scrubbed lines.
var credentialRE = regexp.MustCompile(`eyJ[A-Za-z0-9_-]+\.[A-Za-z0-9_-]*\.[A-Za-z0-9_-]*|ory_[a-z]{2,3}_[A-Za-z0-9_-]+(\.[A-Za-z0-9_-]+)?`)

func scrubCredentials(l string) string {
	if !strings.Contains(l, "eyJ") && !strings.Contains(l, "ory_") {
		return l
	}
	return credentialRE.ReplaceAllString(l, "<credential>")
}

func hashLog(log []string) string {
	h := sha256.New()
	for _, l := range log {
		io.WriteString(h, scrubCredentials(l))
		io.WriteString(h, "\n")
	}
	return hex.EncodeToString(h.Sum(nil)[:8])
}

// Execute runs one plan inside one synctest bubble.
func Execute(t *testing.T, plan *Plan) *Result {
	res := &Result{Plan: plan}
	loadKeys()
	// pre-hash every secret outside the bubble / before entropy is swapped
	for _, c := range plan.K.Clients {
		if c.Secret != "" {
			HashSecret(c.Secret)
		}
		for _, s := range c.Rotated {
			HashSecret(s)
		}
	}
	for _, st := range plan.Steps {
		if st.Op == "client_change" && strings.HasPrefix(st.V, "rotate_secret:") {
			HashSecret(strings.TrimPrefix(st.V, "rotate_secret:")) // the hash cache must not decide how much entropy a run draws
		}
	}
	ent := NewEntropyStream(plan.Seed)
	oldReader := rand.Reader
	rand.Reader = ent
	uuid.SetRand(ent)
	defer func() { rand.Reader = oldReader; uuid.SetRand(nil) }()

	func() {
		defer func() {
			if p := recover(); p != nil {
				res.Panic = fmt.Sprint(p)
			}
		}()
		synctest.Test(t, func(t *testing.T) {
			k := plan.K // copy: operator ops mutate the deployment, never the plan
			kk := cloneKnobs(&k)
			r := &Run{Plan: plan, Ent: ent, Stats: map[string]int{}, Probes: map[string]int{}, Secrets: map[string]string{}, Canaries: map[string]bool{},
				StateSeen: map[string]bool{}, storageSeen: map[string]string{}, lastAssertion: map[string]string{}, lastJTI: map[string]string{}, T: t}
			r.W = NewWorld(kk)
			r.A = NewApp(r.W)
			r.L = NewLedger(kk)
			r.Start = time.Now()
			r.Fault = &faultState{}
			r.installHooks()
			PanicIsRequestFailure = func() bool { return r.Ent.Fired["rand-err"]+r.Ent.Fired["rand-short"] > r.entFiredSeen }
			defer func() { PanicIsRequestFailure = nil }()
			for _, c := range kk.Clients {
				r.secret(c.Secret, "client_secret")
				for _, s := range c.Rotated {
					r.secret(s, "client_secret(rotated)")
				}
			}
			for _, pw := range kk.Users {
				r.secret(pw, "user_password")
			}
			defer func() {
				if p := recover(); p != nil {
					if _, ok := p.(crashSentinel); ok {
						res.Panic = "crash sentinel escaped the request guard"
					} else {
						res.Panic = fmt.Sprintf("panic at step %d: %v", r.Idx, p)
						res.PanicStack = panicSite()
						r.violate("C19", "panic", res.PanicStack, "panic during a sequential history: %v at %s", p, res.PanicStack)
					}
				}
				res.Violations = r.Viol
				res.Sanity = r.Sanity
				res.Log = r.Log
				res.Stats = r.Stats
				res.Probes = r.Probes
				res.SimTime = time.Since(r.Start)
				res.Steps = len(plan.Steps)
				for s := range r.StateSeen {
					res.States = append(res.States, s)
				}
				sort.Strings(res.States)
				res.Shape = strings.Join(r.Shape, " ")
				res.Branching = r.branching
				res.Schedules = r.schedules
				res.EntropyDraws = ent.Draws
				res.StoreCalls = r.W.Store.TotalCalls
				for k, v := range ent.Fired {
					res.Stats["fault:"+k] += v
				}
				for k, v := range r.W.Net.Fired {
					res.Stats["fault:"+k] += v
				}
			}()
			for i, st := range plan.Steps {
				r.Idx = i
				r.Tags = nil
				r.step(st)
				r.StateSeen[shortHash(r.L.AbstractState())] = true
			}
			r.Idx = len(plan.Steps)
			r.Tags = nil
			r.finalChecks()
		})
	}()
	res.LogHash = hashLog(res.Log)
	return res
}

func cloneKnobs(k *Knobs) *Knobs {
	b, _ := json.Marshal(k)
	var o Knobs
	_ = json.Unmarshal(b, &o)
	return &o
}

// ---------------------------------------------------------------------------
// dispatch

func (r *Run) step(st Step) {
	r.stat("op:" + st.Op)
	if st.F != nil {
		r.Shape = append(r.Shape, fmt.Sprintf("fault:%s@%d", st.F.Kind, st.F.At))
		if st.F2 != nil {
			r.Shape = append(r.Shape, fmt.Sprintf("fault2:%s@%d", st.F2.Kind, st.F2.At))
		}
		r.Fault.arm(st.F, st.F2)
		for _, fs := range []*FaultSpec{st.F, st.F2} {
			if fs != nil && (fs.Kind == "rand-err" || fs.Kind == "rand-short") {
				r.Ent.FailAt[r.Ent.Draws+fs.At] = fs.Kind[5:]
			}
		}
		r.entFiredSeen = r.Ent.Fired["rand-err"] + r.Ent.Fired["rand-short"]
		if r.W.Store.Copy {
			r.tablesBefore = r.W.Store.DumpTables()
		}
	}
	switch st.Op {
	case "advance":
		r.opAdvance(st)
	case "authz":
		r.opAuthorize(st)
	case "redeem":
		r.opRedeem(st)
	case "refresh":
		r.opRefresh(st)
	case "introspect":
		r.opIntrospect(st)
	case "revoke":
		r.opRevoke(st)
	case "password":
		r.opPassword(st)
	case "client_credentials":
		r.opClientCredentials(st)
	case "probe_all":
		r.probeAll("final")
	default:
		if f, ok := extraOps[st.Op]; ok {
			f(r, st)
		} else {
			panic("unknown op " + st.Op)
		}
	}
	if st.F != nil {
		r.Fault.disarm(r)
		for k := range r.Ent.FailAt {
			delete(r.Ent.FailAt, k)
		}
	}
}

var extraOps = map[string]func(*Run, Step){}

func (r *Run) finalChecks() {
	if !r.NoProbe {
		r.probeAll("final")
	}
}

// ---------------------------------------------------------------------------
// helpers shared by ops

func (r *Run) clientSpec(i int) *ClientSpec {
	n := len(r.W.K.Clients)
	if n == 0 {
		return nil
	}
	if i < 0 {
		i = -i
	}
	return &r.W.K.Clients[i%n]
}

func (r *Run) specByID(id string) *ClientSpec {
	for i := range r.W.K.Clients {
		if r.W.K.Clients[i].ID == id {
			return &r.W.K.Clients[i]
		}
	}
	return nil
}

// presenter resolves which client acts: st.C<0 means the credential's rightful client.
func (r *Run) presenter(st Step, owner string) *ClientSpec {
	if st.C < 0 {
		if cs := r.specByID(owner); cs != nil {
			return cs
		}
		return r.clientSpec(0) // grants not bound to a client (jwt-bearer with skipped client authentication)
	}
	return r.clientSpec(st.C)
}

// authValid: does this client-auth variant prove the client's identity the way its registration permits (C10 statement)?
func authValid(cs *ClientSpec, variant string) bool {
	if cs == nil {
		return false
	}
	if cs.Public {
		// public clients are identified without a secret: whatever secret accompanies the id is irrelevant
		switch variant {
		case "none", "unknown_client", "bad_urlencoding", "as_other", "as_other_query":
			return false
		case "split":
			variant = "ok"
		}
		if strings.HasPrefix(variant, "assert:") {
			return false
		}
		if cs.OIDC && variant == "bad_secret" {
			return false // a client_secret in the body is the client_secret_post method, which a method-"none" registration does not permit
		}
		return !(cs.OIDC && cs.AuthMethod != "none" && cs.AuthMethod != "")
	}
	if strings.HasPrefix(variant, "assert:") {
		return false // decided by the caller with the assertion-variant table (authValidRun)
	}
	if cs.OIDC && cs.AuthMethod != "client_secret_basic" && cs.AuthMethod != "client_secret_post" {
		// private_key_jwt: only a valid assertion ("ok" sends one); client_secret_jwt / unknown methods: nothing is valid
		return cs.AuthMethod == "private_key_jwt" && (variant == "" || variant == "ok")
	}
	switch variant {
	case "", "ok":
		return true
	case "rotated":
		return true // a rotated secret when one exists, the current one otherwise
	case "post":
		return !cs.OIDC || cs.AuthMethod == "client_secret_post"
	case "basic":
		return !cs.OIDC || cs.AuthMethod == "client_secret_basic"
	case "both":
		return !cs.OIDC
	}
	return false // incl. "split": id in the Basic header with an empty password, the secret in the body
}

// authOK: authValid plus the private_key_jwt assertion variants (which need the run's clock).
func (r *Run) authOK(cs *ClientSpec, variant string) bool {
	if cs != nil && r.W.K.DenyClient != "" && r.W.K.DenyClient == cs.ID {
		return false // the operator's client-authentication strategy refuses this client at every endpoint that authenticates clients
	}
	if strings.HasPrefix(variant, "assert:") {
		if cs == nil || !cs.OIDC || cs.AuthMethod != "private_key_jwt" {
			return false
		}
		_, verdict := r.clientAssertVariant(cs, variant[7:])
		return verdict == Must
	}
	return authValid(cs, variant)
}

// tokenWrites: writes to code/token tables made since the current request started (C10: a rejected request makes none).
func (r *Run) tokenWrites() []string {
	var out []string
	for _, w := range r.W.Store.WriteLog[r.writeMark:] {
		if strings.HasPrefix(w, "SetClientAssertionJWT") || strings.HasPrefix(w, "MarkJWTUsedForTime") {
			continue // the jti memory is not a token or code table
		}
		out = append(out, w)
	}
	return out
}

func (r *Run) noWrites(kind, desc string) {
	if ws := r.tokenWrites(); len(ws) > 0 {
		names := map[string]bool{}
		for _, w := range ws {
			names[strings.Fields(w)[0]] = true
		}
		var ns []string
		for n := range names {
			ns = append(ns, n)
		}
		sort.Strings(ns)
		r.violate("C10", "rejected-request-wrote-tokens", kind+":"+strings.Join(ns, ","), "%s: client authentication was invalid but the request wrote to token/code tables: %v", desc, ns)
	}
	r.probe("c10-no-write-checked")
}

// applyAuth adds the client's credentials to the request according to the variant.
func (r *Run) applyAuth(cs *ClientSpec, variant string, form url.Values) *Basic {
	if cs == nil {
		return nil
	}
	secret := cs.Secret
	switch variant {
	case "bad_secret":
		secret = cs.Secret + "x"
	case "empty_secret":
		secret = ""
	case "rotated":
		if len(cs.Rotated) > 0 {
			secret = cs.Rotated[len(cs.Rotated)-1]
		}
	case "other_secret":
		for _, o := range r.W.K.Clients {
			if o.ID != cs.ID && o.Secret != "" && o.Secret != cs.Secret {
				secret = o.Secret
				break
			}
		}
		if secret == cs.Secret {
			secret = "not-" + cs.Secret
		}
	case "as_other_query":
		// as "as_other", but the foreign client_id travels in the URL's query string of the POST, not in its body
		for _, o := range r.W.K.Clients {
			if o.ID != cs.ID && !o.Public && o.Secret != "" && (!o.OIDC || o.AuthMethod == "client_secret_basic") {
				form.Set("_query:client_id", cs.ID)
				return &Basic{User: o.ID, Pass: o.Secret}
			}
		}
		form.Set("_query:client_id", cs.ID)
		return &Basic{User: cs.ID, Pass: "no-other-confidential-client"}
	case "as_other":
		// valid credentials of ANOTHER confidential client in the Authorization header, this client's id in the body: the caller
		// proved to be the other client, not this one - nothing may be processed in this client's name
		for _, o := range r.W.K.Clients {
			if o.ID != cs.ID && !o.Public && o.Secret != "" && (!o.OIDC || o.AuthMethod == "client_secret_basic") {
				form.Set("client_id", cs.ID)
				return &Basic{User: o.ID, Pass: o.Secret}
			}
		}
		form.Set("client_id", cs.ID)
		return &Basic{User: cs.ID, Pass: "no-other-confidential-client"}
	case "pub_basic":
		// a public client naming itself in the Authorization header (empty password); whatever client_id the body carries stays
		if cs.Public {
			return &Basic{User: cs.ID, Pass: ""}
		}
	case "none":
		return nil
	case "unknown_client":
		form.Set("client_id", "no-such-client")
		form.Set("client_secret", secret)
		return nil
	case "malformed_header":
		if cs.Public {
			form.Set("client_id", cs.ID) // an unparsable Authorization header counts as absent: the body identifies the public client
		}
		return &Basic{Raw: "Basic !!!not-base64!!!"}
	case "split":
		if !cs.Public {
			form.Set("client_secret", secret)
			return &Basic{User: cs.ID, Pass: ""}
		}
	case "bad_urlencoding":
		return &Basic{Raw: "Basic " + base64.StdEncoding.EncodeToString([]byte(cs.ID+":%zz"+secret))}
	}
	if strings.HasPrefix(variant, "assert:") {
		over, _ := r.clientAssertVariant(cs, variant[7:])
		key := cs
		if cs.KeyName == "" { // a client without registered keys presenting an assertion signed with somebody's key
			c2 := *cs
			c2.KeyName = "rsa3"
			key = &c2
		}
		form.Set("client_assertion_type", "urn:ietf:params:oauth:client-assertion-type:jwt-bearer")
		form.Set("client_assertion", r.clientAssertion(key, over))
		return nil
	}
	if cs.Public {
		form.Set("client_id", cs.ID)
		if variant == "bad_secret" {
			form.Set("client_secret", "whatever")
		}
		return nil
	}
	transport := "basic"
	if cs.OIDC && cs.AuthMethod == "client_secret_post" {
		transport = "post"
	}
	switch variant {
	case "post":
		transport = "post"
	case "basic":
		transport = "basic"
	case "both":
		form.Set("client_id", cs.ID)
		form.Set("client_secret", secret)
		return &Basic{User: cs.ID, Pass: secret}
	}
	if cs.OIDC && cs.AuthMethod == "private_key_jwt" && (variant == "" || variant == "ok") {
		form.Set("client_assertion_type", "urn:ietf:params:oauth:client-assertion-type:jwt-bearer")
		form.Set("client_assertion", r.clientAssertion(cs, nil))
		return nil
	}
	if transport == "post" {
		form.Set("client_id", cs.ID)
		form.Set("client_secret", secret)
		return nil
	}
	return &Basic{User: cs.ID, Pass: secret}
}

func (r *Run) overrideLife(cs *ClientSpec, key string, def time.Duration) time.Duration {
	if cs != nil && cs.Lifespans != nil {
		if v, ok := cs.Lifespans[key]; ok {
			if v < 0 {
				return -1
			}
			return time.Duration(v) * time.Second
		}
	}
	return def
}

// recordTokenResponse registers the credentials found in a successful token response.
func (r *Run) recordTokenResponse(res *Resp, g *Grant, gen int, grantKey string, cs *ClientSpec) (at, rt, id *Cred) {
	now := r.now()
	if v := res.Str("access_token"); v != "" {
		at = r.L.AddCred(&Cred{Kind: "at", Val: v, G: g, Gen: gen, Issued: now, Endpoint: "token", Delivered: true,
			Life: r.overrideLife(cs, grantKey+":access_token", r.W.K.DocATLife())})
		if e, ok := res.JSON["expires_in"].(float64); ok {
			at.ExpiresIn = time.Duration(e) * time.Second
		}
		r.secret(v, "access_token")
		r.checkMinted(v, "at")
	}
	if v := res.Str("refresh_token"); v != "" {
		rt = r.L.AddCred(&Cred{Kind: "rt", Val: v, G: g, Gen: gen, Issued: now, Endpoint: "token", Delivered: true,
			Life: r.overrideLife(cs, grantKey+":refresh_token", r.W.K.DocRTLife())})
		r.secret(v, "refresh_token")
		r.checkMinted(v, "rt")
		if rt.Life < 0 {
			// "unlimited" on refresh leaves the session's earlier (finite) expiry in place: whether the new token is
			// unlimited or inherits that expiry is not pinned down => no positive expectation
			for _, o := range g.Creds {
				if o.Kind == "rt" && o != rt && o.Life >= 0 {
					rt.Life = 0
				}
			}
		}
	}
	if v := res.Str("id_token"); v != "" {
		id = r.L.AddCred(&Cred{Kind: "id", Val: v, G: g, Gen: gen, Issued: now, Endpoint: "token", Delivered: true,
			Life: r.overrideLife(cs, grantKey+":id_token", r.W.K.DocIDLife())})
	}
	if at != nil && rt != nil {
		at.Pair, rt.Pair = rt, at
	}
	return
}

func credNames(cs ...*Cred) string {
	var out []string
	for _, c := range cs {
		if c != nil {
			out = append(out, c.Name())
		}
	}
	return strings.Join(out, ",")
}

// ---------------------------------------------------------------------------
// probing: after every step, compare what introspection says with what the ledger says.

func (r *Run) introspectCred(c *Cred) (active bool, ar fosite.AccessRequester) {
	use := fosite.AccessToken
	if c.Kind == "rt" {
		use = fosite.RefreshToken
	}
	r.Fault.suspend++
	defer func() { r.Fault.suspend-- }()
	_, ar, err := r.A.IntrospectDirect(c.Val, use)
	return err == nil, ar
}

func (r *Run) probeCred(c *Cred, when string) {
	if c.Kind != "at" && c.Kind != "rt" {
		return
	}
	if c.Kind == "rt" && r.W.K.DisableRTValidation {
		// refresh-token introspection is disabled: a refresh token is never reported active, whatever the hint
		if active, _ := r.introspectCred(c); active {
			r.violate("C09", "refresh-token-active-although-introspection-disabled", "probe", "%s is reported active %s although refresh-token validation is disabled", c.Name(), when)
		}
		return
	}
	exp, why := r.L.Expect(c, r.now())
	if exp == Unspec {
		return
	}
	active, ar := r.introspectCred(c)
	r.stat("probe")
	if exp == MustNot && active {
		tags := appendUniq(append([]string{}, why...), "C09")
		for _, p := range tags {
			r.violate(p, "honoured-but-must-not", c.Kind, "%s (%s, %s: %v) is reported active %s", c.Name(), c.G.Origin, c.State, c.Why, when)
		}
		r.taint(c.G)
	}
	if exp == Must && !active {
		tags := appendUniq(append([]string{}, r.Tags...), "C09")
		for _, p := range tags {
			r.violate(p, "refused-but-must", c.Kind, "%s (%s, gen %d, age %s of %s) is reported inactive %s although nothing invalidated it", c.Name(), c.G.Origin, c.Gen, r.now().Sub(c.Issued), c.Life, when)
		}
		r.taint(c.G)
	}
	if exp == Must && active && ar != nil {
		r.checkIntrospected(c, ar)
	}
}

// checkIntrospected: an active token reports the grant's real client, subject, scopes, audience (C09; C02/C05: nothing was added or changed).
func (r *Run) checkIntrospected(c *Cred, ar fosite.AccessRequester) {
	g := c.G
	tags := []string{"C09"}
	switch g.Origin {
	case "code", "hybrid":
		tags = append(tags, "C02")
	}
	if c.Gen > 0 {
		tags = append(tags, "C05")
	}
	tags = append(tags, "C12")
	bad := ""
	if ar.GetClient().GetID() != g.Client {
		bad = fmt.Sprintf("client %q != %q", ar.GetClient().GetID(), g.Client)
	} else if !sameSet(ar.GetGrantedScopes(), g.Scopes) {
		bad = fmt.Sprintf("scopes %v != granted %v", ar.GetGrantedScopes(), g.Scopes)
	} else if !sameSet(ar.GetGrantedAudience(), g.Audience) {
		bad = fmt.Sprintf("audience %v != granted %v", ar.GetGrantedAudience(), g.Audience)
	} else if g.Subject != "" && ar.GetSession().GetSubject() != g.Subject {
		bad = fmt.Sprintf("subject %q != %q", ar.GetSession().GetSubject(), g.Subject)
	}
	if bad != "" {
		for _, p := range tags {
			r.violate(p, "grant-changed", c.Kind, "%s of grant %d (%s): %s", c.Name(), g.N, g.Origin, bad)
		}
		r.taint(g)
	}
}

// resync: where no statement pins down what an event does to the other credentials of the SAME grant, the ledger
// follows the observed outcome in the safe direction only: live -> dead. Nothing is ever resurrected this way.
func (r *Run) resync(g *Grant, reason string) {
	for _, c := range g.Creds {
		if (c.Kind != "at" && c.Kind != "rt") || c.State != Live || c.Unspec {
			continue
		}
		if c.Kind == "rt" && r.W.K.DisableRTValidation {
			c.Unspec = true
			continue
		}
		if exp, _ := r.L.Expect(c, r.now()); exp != Must {
			continue
		}
		if active, _ := r.introspectCred(c); !active {
			r.L.Kill(c, Dead)
			r.logf("   resync: %s became inactive when %s (unspecified, accepted)", c.Name(), reason)
			r.stat("resync-dead")
		}
	}
}

func (r *Run) probeGrant(g *Grant, when string) {
	for _, c := range g.Creds {
		r.probeCred(c, when)
	}
}

func (r *Run) probeAll(when string) {
	if r.NoProbe {
		return
	}
	for _, c := range r.L.Creds {
		r.probeCred(c, when)
	}
}

// ---------------------------------------------------------------------------

func (r *Run) opAdvance(st Step) {
	d := time.Duration(st.D) * time.Millisecond
	if st.V != "" {
		// targeted: V = kind list, D = offset in ms relative to the selected credential's expiry instant
		c := r.L.Select(st.G, strings.Split(st.V, ",")...)
		if st.p("from_end") != "" {
			c = r.L.SelectFromEnd(st.G, strings.Split(st.V, ",")...)
		}
		if c == nil || c.Life <= 0 {
			r.logf("advance(target %s): no credential with a finite lifetime", st.V)
			return
		}
		target := c.Issued.Add(c.Life).Add(time.Duration(st.D) * time.Millisecond)
		d = target.Sub(r.now())
		if d <= 0 {
			r.logf("advance(target %s%+dms): already past", c.Name(), st.D)
			return
		}
		r.probe(fmt.Sprintf("boundary:%s:%s", c.Kind, sign(st.D)))
	}
	if d <= 0 {
		return
	}
	time.Sleep(d)
	r.logf("advance %s", d)
	r.Shape = append(r.Shape, "adv")
}

func sign(x int64) string {
	if x < 0 {
		return "before"
	}
	return "after"
}

// panicSite: innermost frames of the panicking goroutine that belong to fosite or the harness (file:line free, function names only).
func panicSite() string {
	pc := make([]uintptr, 40)
	n := runtime.Callers(3, pc)
	frames := runtime.CallersFrames(pc[:n])
	var out []string
	for {
		f, more := frames.Next()
		if strings.Contains(f.Function, "ory/fosite") || strings.Contains(f.Function, "verif/sim") {
			fn := f.Function
			if i := strings.LastIndex(fn, "/"); i >= 0 {
				fn = fn[i+1:]
			}
			out = append(out, fn)
			if len(out) >= 4 {
				break
			}
		}
		if !more {
			break
		}
	}
	return strings.Join(out, " < ")
}

func tokenUse(s string) fosite.TokenUse { return fosite.TokenUse(s) }
